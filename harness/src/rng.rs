//! SplitMix64 – tiny deterministic PRNG (no external crates available offline).

#[derive(Clone, Debug)]
pub struct Rng(pub u64);

impl Rng {
    pub fn new(seed: u64) -> Self {
        Rng(seed ^ 0x9E37_79B9_7F4A_7C15)
    }
    /// Independent stream derived from a seed and a label (monitor / shard / batch).
    pub fn derive(seed: u64, label: &str, n: u64) -> Self {
        let mut h = 0xcbf2_9ce4_8422_2325u64 ^ seed;
        for b in label.bytes() {
            h ^= b as u64;
            h = h.wrapping_mul(0x1000_0000_01b3);
        }
        h ^= n.wrapping_mul(0x9E37_79B9_7F4A_7C15);
        let mut r = Rng(h);
        r.next();
        r
    }
    pub fn next(&mut self) -> u64 {
        self.0 = self.0.wrapping_add(0x9E37_79B9_7F4A_7C15);
        let mut z = self.0;
        z = (z ^ (z >> 30)).wrapping_mul(0xBF58_476D_1CE4_E5B9);
        z = (z ^ (z >> 27)).wrapping_mul(0x94D0_49BB_1331_11EB);
        z ^ (z >> 31)
    }
    /// uniform in 0..n (n > 0)
    pub fn below(&mut self, n: u64) -> u64 {
        debug_assert!(n > 0);
        ((self.next() as u128 * n as u128) >> 64) as u64
    }
    pub fn range(&mut self, lo: i64, hi_incl: i64) -> i64 {
        lo + self.below((hi_incl - lo + 1) as u64) as i64
    }
    pub fn bits(&mut self, n: u32) -> u64 {
        if n == 0 {
            0
        } else if n >= 64 {
            self.next()
        } else {
            self.next() >> (64 - n)
        }
    }
    pub fn chance(&mut self, num: u64, den: u64) -> bool {
        self.below(den) < num
    }
    pub fn f64(&mut self) -> f64 {
        (self.next() >> 11) as f64 / (1u64 << 53) as f64
    }
    pub fn pick<'a, T>(&mut self, xs: &'a [T]) -> &'a T {
        &xs[self.below(xs.len() as u64) as usize]
    }
    /// non-zero 24-bit address
    pub fn addr(&mut self) -> u32 {
        loop {
            let a = self.bits(24) as u32;
            if a != 0 {
                return a;
            }
        }
    }
    pub fn shuffle<T>(&mut self, xs: &mut [T]) {
        for i in (1..xs.len()).rev() {
            let j = self.below(i as u64 + 1) as usize;
            xs.swap(i, j);
        }
    }
}

/// FNV-1a 64 of a byte string – used to count distinct cases.
pub fn fnv(bytes: &[u8]) -> u64 {
    let mut h = 0xcbf2_9ce4_8422_2325u64;
    for b in bytes {
        h ^= *b as u64;
        h = h.wrapping_mul(0x1000_0000_01b3);
    }
    h
}
