//! Driving the real code: one *segment* = one file in /dev/shm = one reader thread
//! (`spawn_reader_thread`) working on a table we keep a handle to. Observation is
//! through the public fields of `Plane` only.

use chrono::{DateTime, Duration, Utc};
use squitterator::{Args, Plane, Planes, spawn_reader_thread};
use std::collections::{BTreeMap, HashMap};
use std::io::Write;
use std::sync::atomic::{AtomicU64, Ordering};
use std::sync::{Arc, Mutex, RwLock};

#[derive(Clone, Debug)]
pub struct Opts {
    pub u: bool,
    pub r: bool,
    pub filter: Option<Vec<u32>>,
    pub count: bool,
    pub delete_after: i64,
    pub update: i64,
    pub display: Vec<String>,
    pub order: Vec<String>,
    pub log_messages: Option<Vec<u32>>,
    pub downlink_log: Option<String>,
}

impl Default for Opts {
    fn default() -> Self {
        Opts {
            u: false,
            r: false,
            filter: None,
            count: false,
            delete_after: 1_000_000_000,
            update: 1_000_000_000,
            display: vec!["Q".to_string()],
            order: vec!["sA".to_string()],
            log_messages: None,
            downlink_log: None,
        }
    }
}

impl Opts {
    pub fn ur(u: bool, r: bool) -> Opts {
        Opts { u, r, ..Default::default() }
    }
    pub fn to_args(&self, source: &str) -> Args {
        Args {
            count_df: self.count,
            display_info: self.display.clone(),
            downlink_log: self.downlink_log.clone(),
            error_log: None,
            filter: self.filter.clone(),
            format: None,
            log_messages: self.log_messages.clone(),
            order_by: self.order.clone(),
            observer_coord: None,
            relaxed: self.r,
            source: source.to_string(),
            tcp: String::new(),
            update: self.update,
            delete_after: self.delete_after,
            use_update_method: self.u,
        }
    }
    pub fn describe(&self) -> String {
        let mut s = String::new();
        if self.u {
            s.push_str("-U ");
        }
        if self.r {
            s.push_str("-R ");
        }
        if self.count {
            s.push_str("-c ");
        }
        if let Some(f) = &self.filter {
            for x in f {
                s.push_str(&format!("-f {} ", x));
            }
        }
        if self.delete_after != 1_000_000_000 {
            s.push_str(&format!("-d {} ", self.delete_after));
        }
        if self.update != 1_000_000_000 {
            s.push_str(&format!("--update={} ", self.update));
        }
        if self.display != vec!["Q".to_string()] {
            s.push_str(&format!("-i {} ", self.display.join(" -i ")));
        }
        if self.order != vec!["sA".to_string()] {
            s.push_str(&format!("-o {} ", self.order.join(" -o ")));
        }
        if let Some(m) = &self.log_messages {
            for x in m {
                s.push_str(&format!("-M {} ", x));
            }
        }
        if self.downlink_log.is_some() {
            s.push_str("-D <file> ");
        }
        s.trim_end().to_string()
    }
}

// ------------------------------------------------------------------ panic capture

static PANICS: Mutex<Vec<String>> = Mutex::new(Vec::new());

pub fn install_panic_hook() {
    std::panic::set_hook(Box::new(|info| {
        let loc = info.location().map(|l| format!("{}:{}", l.file(), l.line())).unwrap_or_default();
        let msg = if let Some(s) = info.payload().downcast_ref::<&str>() {
            s.to_string()
        } else if let Some(s) = info.payload().downcast_ref::<String>() {
            s.clone()
        } else {
            "<non-string panic>".to_string()
        };
        if let Ok(mut p) = PANICS.lock() {
            p.push(format!("{} @ {}", msg, loc));
        }
    }));
}

fn take_panics() -> Vec<String> {
    PANICS.lock().map(|mut p| std::mem::take(&mut *p)).unwrap_or_default()
}

#[derive(Clone, Debug)]
pub enum RunErr {
    /// reader thread panicked: message @ location
    Panic(String),
    /// reader returned an I/O error
    Io(String),
}

// ------------------------------------------------------------------ row snapshot

/// Typed copy of every public field of `Plane`. Built through an exhaustive struct
/// pattern so that a new field in `Plane` breaks the harness build (=> inconclusive)
/// instead of going unobserved.
#[derive(Clone, Debug, PartialEq)]
pub struct Row {
    pub icao: u32,
    pub capability: u32,
    pub cap_flags: u32,
    pub cap_bds: [bool; 5], // 20,40,44,50,60
    pub category: (u32, u32),
    pub reg: String,
    pub ais: Option<String>,
    pub altitude: Option<u32>,
    pub altitude_gnss: Option<u32>,
    pub altitude_source: char,
    pub selected_altitude: Option<u32>,
    pub barometric_pressure_setting: Option<u32>,
    pub target_altitude_source: char,
    pub squawk: Option<u32>,
    pub surveillance_status: char,
    pub threat_encounter: Option<char>,
    pub vrate: Option<i32>,
    pub vrate_source: char,
    pub cpr_lat: [u32; 2],
    pub cpr_lon: [u32; 2],
    pub cpr_time: [i64; 2],
    pub lat: u64, // f64 bits
    pub lon: u64,
    pub distance_from_observer: Option<u64>,
    pub grspeed: Option<u32>,
    pub true_airspeed: Option<u32>,
    pub indicated_airspeed: Option<u32>,
    pub mach_number: Option<u64>,
    pub ground_movement: Option<u64>,
    pub turn: u32,
    pub track: Option<u32>,
    pub track_source: char,
    pub heading: Option<u32>,
    pub heading_source: char,
    pub roll_angle: Option<i32>,
    pub track_angle_rate: Option<i32>,
    pub bds_5_0_timestamp: Option<i64>,
    pub temperature: Option<u64>,
    pub wind: Option<(u32, u32)>,
    pub turbulence: Option<u32>,
    pub humidity: Option<u32>,
    pub pressure: Option<u32>,
    pub timestamp: i64,
    pub position_timestamp: Option<i64>,
    pub track_timestamp: Option<i64>,
    pub heading_timestamp: Option<i64>,
    pub last_type_code: u32,
    pub last_df: u32,
    pub adsb_version: Option<u32>,
}

fn us(t: &DateTime<Utc>) -> i64 {
    t.timestamp_micros()
}

impl Row {
    pub fn of(p: &Plane) -> Row {
        let Plane {
            icao,
            capability,
            category,
            reg,
            ais,
            altitude,
            altitude_gnss,
            altitude_source,
            selected_altitude,
            barometric_pressure_setting,
            target_altitude_source,
            squawk,
            surveillance_status,
            threat_encounter,
            vrate,
            vrate_source,
            cpr_lat,
            cpr_lon,
            cpr_time,
            lat,
            lon,
            distance_from_observer,
            grspeed,
            true_airspeed,
            indicated_airspeed,
            mach_number,
            ground_movement,
            turn,
            track,
            track_source,
            heading,
            heading_source,
            roll_angle,
            track_angle_rate,
            bds_5_0_timestamp,
            temperature,
            wind,
            turbulence,
            humidity,
            pressure,
            timestamp,
            position_timestamp,
            track_timestamp,
            heading_timestamp,
            last_type_code,
            last_df,
            adsb_version,
        } = p;
        Row {
            icao: *icao,
            capability: capability.0,
            cap_flags: capability.1.flags,
            cap_bds: [
                capability.1.bds20,
                capability.1.bds40,
                capability.1.bds44,
                capability.1.bds50,
                capability.1.bds60,
            ],
            category: *category,
            reg: reg.to_string(),
            ais: ais.clone(),
            altitude: *altitude,
            altitude_gnss: *altitude_gnss,
            altitude_source: *altitude_source,
            selected_altitude: *selected_altitude,
            barometric_pressure_setting: *barometric_pressure_setting,
            target_altitude_source: *target_altitude_source,
            squawk: *squawk,
            surveillance_status: *surveillance_status,
            threat_encounter: *threat_encounter,
            vrate: *vrate,
            vrate_source: *vrate_source,
            cpr_lat: *cpr_lat,
            cpr_lon: *cpr_lon,
            cpr_time: [us(&cpr_time[0]), us(&cpr_time[1])],
            lat: lat.to_bits(),
            lon: lon.to_bits(),
            distance_from_observer: distance_from_observer.map(f64::to_bits),
            grspeed: *grspeed,
            true_airspeed: *true_airspeed,
            indicated_airspeed: *indicated_airspeed,
            mach_number: mach_number.map(f64::to_bits),
            ground_movement: ground_movement.map(f64::to_bits),
            turn: *turn,
            track: *track,
            track_source: *track_source,
            heading: *heading,
            heading_source: *heading_source,
            roll_angle: *roll_angle,
            track_angle_rate: *track_angle_rate,
            bds_5_0_timestamp: bds_5_0_timestamp.as_ref().map(us),
            temperature: temperature.map(f64::to_bits),
            wind: *wind,
            turbulence: *turbulence,
            humidity: *humidity,
            pressure: *pressure,
            timestamp: us(timestamp),
            position_timestamp: position_timestamp.as_ref().map(us),
            track_timestamp: track_timestamp.as_ref().map(us),
            heading_timestamp: heading_timestamp.as_ref().map(us),
            last_type_code: *last_type_code,
            last_df: *last_df,
            adsb_version: *adsb_version,
        }
    }
    pub fn latf(&self) -> f64 {
        f64::from_bits(self.lat)
    }
    pub fn lonf(&self) -> f64 {
        f64::from_bits(self.lon)
    }
    pub fn distf(&self) -> Option<f64> {
        self.distance_from_observer.map(f64::from_bits)
    }
    pub fn machf(&self) -> Option<f64> {
        self.mach_number.map(f64::from_bits)
    }
    /// Copy with every wall-clock stamp normalised (Some/None-ness kept).
    pub fn unstamped(&self) -> Row {
        let mut r = self.clone();
        r.cpr_time = [0, 0];
        r.timestamp = 0;
        r.bds_5_0_timestamp = r.bds_5_0_timestamp.map(|_| 0);
        r.position_timestamp = r.position_timestamp.map(|_| 0);
        r.track_timestamp = r.track_timestamp.map(|_| 0);
        r.heading_timestamp = r.heading_timestamp.map(|_| 0);
        r
    }
    /// name -> rendering of every field (floats by shortest round-trip repr)
    pub fn fields(&self) -> Vec<(&'static str, String)> {
        fn f(b: u64) -> String {
            format!("{:?}", f64::from_bits(b))
        }
        fn of(b: &Option<u64>) -> String {
            match b {
                Some(x) => format!("Some({:?})", f64::from_bits(*x)),
                None => "None".into(),
            }
        }
        vec![
            ("icao", format!("{:06X}", self.icao)),
            ("capability", format!("{}", self.capability)),
            ("cap_flags", format!("{:06X}", self.cap_flags)),
            ("cap_bds", format!("{:?}", self.cap_bds)),
            ("category", format!("{:?}", self.category)),
            ("reg", self.reg.clone()),
            ("ais", format!("{:?}", self.ais)),
            ("altitude", format!("{:?}", self.altitude)),
            ("altitude_gnss", format!("{:?}", self.altitude_gnss)),
            ("altitude_source", format!("{:?}", self.altitude_source)),
            ("selected_altitude", format!("{:?}", self.selected_altitude)),
            ("barometric_pressure_setting", format!("{:?}", self.barometric_pressure_setting)),
            ("target_altitude_source", format!("{:?}", self.target_altitude_source)),
            ("squawk", format!("{:?}", self.squawk)),
            ("surveillance_status", format!("{:?}", self.surveillance_status)),
            ("threat_encounter", format!("{:?}", self.threat_encounter)),
            ("vrate", format!("{:?}", self.vrate)),
            ("vrate_source", format!("{:?}", self.vrate_source)),
            ("cpr_lat", format!("{:?}", self.cpr_lat)),
            ("cpr_lon", format!("{:?}", self.cpr_lon)),
            ("cpr_time", format!("{:?}", self.cpr_time)),
            ("lat", f(self.lat)),
            ("lon", f(self.lon)),
            ("distance_from_observer", of(&self.distance_from_observer)),
            ("grspeed", format!("{:?}", self.grspeed)),
            ("true_airspeed", format!("{:?}", self.true_airspeed)),
            ("indicated_airspeed", format!("{:?}", self.indicated_airspeed)),
            ("mach_number", of(&self.mach_number)),
            ("ground_movement", of(&self.ground_movement)),
            ("turn", format!("{}", self.turn)),
            ("track", format!("{:?}", self.track)),
            ("track_source", format!("{:?}", self.track_source)),
            ("heading", format!("{:?}", self.heading)),
            ("heading_source", format!("{:?}", self.heading_source)),
            ("roll_angle", format!("{:?}", self.roll_angle)),
            ("track_angle_rate", format!("{:?}", self.track_angle_rate)),
            ("bds_5_0_timestamp", format!("{:?}", self.bds_5_0_timestamp)),
            ("temperature", of(&self.temperature)),
            ("wind", format!("{:?}", self.wind)),
            ("turbulence", format!("{:?}", self.turbulence)),
            ("humidity", format!("{:?}", self.humidity)),
            ("pressure", format!("{:?}", self.pressure)),
            ("timestamp", format!("{}", self.timestamp)),
            ("position_timestamp", format!("{:?}", self.position_timestamp)),
            ("track_timestamp", format!("{:?}", self.track_timestamp)),
            ("heading_timestamp", format!("{:?}", self.heading_timestamp)),
            ("last_type_code", format!("{}", self.last_type_code)),
            ("last_df", format!("{}", self.last_df)),
            ("adsb_version", format!("{:?}", self.adsb_version)),
        ]
    }
    /// "field: a -> b" for every differing field
    pub fn diff(&self, other: &Row) -> Vec<String> {
        self.fields()
            .into_iter()
            .zip(other.fields())
            .filter(|(a, b)| a.1 != b.1)
            .map(|(a, b)| format!("{}: {} -> {}", a.0, a.1, b.1))
            .collect()
    }
    pub fn diff_names(&self, other: &Row) -> Vec<&'static str> {
        self.fields().into_iter().zip(other.fields()).filter(|(a, b)| a.1 != b.1).map(|(a, _)| a.0).collect()
    }
}

pub type Snapshot = BTreeMap<u32, Row>;

/// compare two tables ignoring wall-clock stamps; returns human-readable differences
pub fn diff_tables(a: &Snapshot, b: &Snapshot, limit: usize) -> Vec<String> {
    let mut out = Vec::new();
    for (k, ra) in a {
        match b.get(k) {
            None => out.push(format!("{:06X}: present -> absent", k)),
            Some(rb) => {
                let (ua, ub) = (ra.unstamped(), rb.unstamped());
                if ua != ub {
                    out.push(format!("{:06X}: {}", k, ua.diff(&ub).join("; ")));
                }
            }
        }
        if out.len() >= limit {
            return out;
        }
    }
    for k in b.keys() {
        if !a.contains_key(k) {
            out.push(format!("{:06X}: absent -> present", k));
            if out.len() >= limit {
                break;
            }
        }
    }
    out
}

// ------------------------------------------------------------------ table

static FILE_SEQ: AtomicU64 = AtomicU64::new(0);

pub struct Table {
    pub arc: Arc<RwLock<HashMap<u32, Plane>>>,
    pub segments: u64,
    pub lines: u64,
}

impl Default for Table {
    fn default() -> Self {
        Self::new()
    }
}

fn scratch_dir() -> String {
    std::env::var("SQMON_SCRATCH").unwrap_or_else(|_| "/dev/shm".to_string())
}

impl Table {
    pub fn new() -> Table {
        Table { arc: Arc::new(RwLock::new(HashMap::new())), segments: 0, lines: 0 }
    }

    /// Feed raw byte lines (a '\n' is appended to each unless `raw_tail` gives the exact file tail).
    pub fn run_bytes(&mut self, opts: &Opts, content: &[u8]) -> Result<(), RunErr> {
        let path = format!(
            "{}/sqmon-{}-{}.txt",
            scratch_dir(),
            std::process::id(),
            FILE_SEQ.fetch_add(1, Ordering::Relaxed)
        );
        {
            let mut f = std::fs::File::create(&path).map_err(|e| RunErr::Io(e.to_string()))?;
            f.write_all(content).map_err(|e| RunErr::Io(e.to_string()))?;
        }
        let args = Arc::new(opts.to_args(&path));
        let planes = Planes { aircrafts: self.arc.clone() };
        let _ = take_panics();
        let h = spawn_reader_thread(args, planes);
        let res = h.join();
        let _ = std::fs::remove_file(&path);
        self.segments += 1;
        match res {
            Ok(Ok(())) => Ok(()),
            Ok(Err(e)) => Err(RunErr::Io(e.to_string())),
            Err(_) => {
                let p = take_panics();
                // a panic under the write lock poisons the table: start from the data, fresh lock
                Err(RunErr::Panic(p.join(" | ")))
            }
        }
    }

    pub fn run<S: AsRef<str>>(&mut self, opts: &Opts, lines: &[S]) -> Result<(), RunErr> {
        let mut buf = Vec::with_capacity(lines.len() * 30);
        for l in lines {
            buf.extend_from_slice(l.as_ref().as_bytes());
            buf.push(b'\n');
        }
        self.lines += lines.len() as u64;
        self.run_bytes(opts, &buf)
    }

    pub fn is_poisoned(&self) -> bool {
        self.arc.is_poisoned()
    }

    fn with_read<T>(&self, f: impl FnOnce(&HashMap<u32, Plane>) -> T) -> T {
        match self.arc.read() {
            Ok(g) => f(&g),
            Err(p) => f(&p.into_inner()),
        }
    }
    fn with_write<T>(&self, f: impl FnOnce(&mut HashMap<u32, Plane>) -> T) -> T {
        match self.arc.write() {
            Ok(mut g) => f(&mut g),
            Err(p) => f(&mut p.into_inner()),
        }
    }

    pub fn len(&self) -> usize {
        self.with_read(|m| m.len())
    }
    pub fn get(&self, icao: u32) -> Option<Row> {
        self.with_read(|m| m.get(&icao).map(Row::of))
    }
    pub fn keys(&self) -> Vec<u32> {
        let mut k = self.with_read(|m| m.keys().copied().collect::<Vec<_>>());
        k.sort();
        k
    }
    pub fn snapshot(&self) -> Snapshot {
        self.with_read(|m| m.iter().map(|(k, p)| (*k, Row::of(p))).collect())
    }
    /// does some row's `icao` field disagree with its key?
    pub fn key_mismatch(&self) -> Option<(u32, u32)> {
        self.with_read(|m| m.iter().find(|(k, p)| **k != p.icao).map(|(k, p)| (*k, p.icao)))
    }
    /// Simulate `secs` of silence: every time stamp of every row (or of one row) moves back.
    pub fn shift_back(&self, secs: f64, only: Option<u32>) {
        let d = Duration::microseconds((secs * 1e6) as i64);
        self.with_write(|m| match only {
            Some(a) => {
                if let Some(p) = m.get_mut(&a) {
                    shift_plane(p, d);
                }
            }
            None => {
                for p in m.values_mut() {
                    shift_plane(p, d);
                }
            }
        });
    }
    /// direct mutation of a row (used to preset stamps / observer-independent state)
    pub fn edit(&self, icao: u32, f: impl FnOnce(&mut Plane)) -> bool {
        self.with_write(|m| match m.get_mut(&icao) {
            Some(p) => {
                f(p);
                true
            }
            None => false,
        })
    }
    pub fn insert(&self, icao: u32, p: Plane) {
        self.with_write(|m| {
            m.insert(icao, p);
        });
    }
    pub fn clear(&self) {
        self.with_write(|m| m.clear());
    }
}

pub fn shift_plane(p: &mut Plane, d: Duration) {
    p.timestamp -= d;
    p.cpr_time[0] -= d;
    p.cpr_time[1] -= d;
    if let Some(t) = p.position_timestamp.as_mut() {
        *t -= d;
    }
    if let Some(t) = p.track_timestamp.as_mut() {
        *t -= d;
    }
    if let Some(t) = p.heading_timestamp.as_mut() {
        *t -= d;
    }
    if let Some(t) = p.bds_5_0_timestamp.as_mut() {
        *t -= d;
    }
}

pub fn now_us() -> i64 {
    Utc::now().timestamp_micros()
}
