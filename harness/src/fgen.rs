//! Frame generators on top of the reference model (well-formed frames of every
//! supported format with chosen field values).

use crate::refmodel::frames::{Frame, build};
use crate::refmodel::velocity::Vel;
use crate::rng::Rng;

pub fn df11(addr: u32, ca: u32, ic: u32) -> Frame {
    build(11, addr, ca, 0, ic)
}
/// DF0: hi14 = VS,CC,-,SL(3),--,RI(4),-- (bits 6..19), ac13 in bits 20..32
pub fn df0(addr: u32, hi14: u32, ac13: u32) -> Frame {
    build(0, addr, ((hi14 & 0x3FFF) << 13) | (ac13 & 0x1FFF), 0, 0)
}
/// DF4: hi14 = FS(3) DR(5) UM(6)
pub fn df4(addr: u32, hi14: u32, ac13: u32) -> Frame {
    build(4, addr, ((hi14 & 0x3FFF) << 13) | (ac13 & 0x1FFF), 0, 0)
}
pub fn df5(addr: u32, hi14: u32, id13: u32) -> Frame {
    build(5, addr, ((hi14 & 0x3FFF) << 13) | (id13 & 0x1FFF), 0, 0)
}
pub fn df16(addr: u32, hi14: u32, ac13: u32, mv: u64) -> Frame {
    build(16, addr, ((hi14 & 0x3FFF) << 13) | (ac13 & 0x1FFF), mv, 0)
}
pub fn df17(addr: u32, ca: u32, me: u64) -> Frame {
    build(17, addr, ca, me, 0)
}
pub fn df18(addr: u32, cf: u32, me: u64) -> Frame {
    build(18, addr, cf, me, 0)
}
pub fn df20(addr: u32, hi14: u32, ac13: u32, mb: u64) -> Frame {
    build(20, addr, ((hi14 & 0x3FFF) << 13) | (ac13 & 0x1FFF), mb, 0)
}
pub fn df21(addr: u32, hi14: u32, id13: u32, mb: u64) -> Frame {
    build(21, addr, ((hi14 & 0x3FFF) << 13) | (id13 & 0x1FFF), mb, 0)
}

// ---- ME fields (56 bits) of extended squitters

pub fn me_ident(tc: u32, cat: u32, chars48: u64) -> u64 {
    (((tc & 0x1F) as u64) << 51) | (((cat & 7) as u64) << 48) | (chars48 & 0xFFFF_FFFF_FFFF)
}
/// airborne position: TC 9..18 (or 20..22 with GNSS height in the AC12 slot)
pub fn me_airpos(tc: u32, ss: u32, saf: u32, ac12: u32, t: u32, f: u32, lat17: u32, lon17: u32) -> u64 {
    (((tc & 0x1F) as u64) << 51)
        | (((ss & 3) as u64) << 49)
        | (((saf & 1) as u64) << 48)
        | (((ac12 & 0xFFF) as u64) << 36)
        | (((t & 1) as u64) << 35)
        | (((f & 1) as u64) << 34)
        | (((lat17 & 0x1FFFF) as u64) << 17)
        | (lon17 & 0x1FFFF) as u64
}
/// surface position: TC 5..8
pub fn me_surface(tc: u32, mov: u32, trk_status: u32, trk: u32, t: u32, f: u32, lat17: u32, lon17: u32) -> u64 {
    (((tc & 0x1F) as u64) << 51)
        | (((mov & 0x7F) as u64) << 44)
        | (((trk_status & 1) as u64) << 43)
        | (((trk & 0x7F) as u64) << 36)
        | (((t & 1) as u64) << 35)
        | (((f & 1) as u64) << 34)
        | (((lat17 & 0x1FFFF) as u64) << 17)
        | (lon17 & 0x1FFFF) as u64
}
/// operational status TC31: version in ME bits 41..43
pub fn me_opstatus(subtype: u32, cc: u32, om: u32, version: u32, rest13: u32) -> u64 {
    ((31u64) << 51)
        | (((subtype & 7) as u64) << 48)
        | (((cc & 0xFFFF) as u64) << 32)
        | (((om & 0xFFFF) as u64) << 16)
        | (((version & 7) as u64) << 13)
        | (rest13 & 0x1FFF) as u64
}
pub fn me_raw(tc: u32, low51: u64) -> u64 {
    (((tc & 0x1F) as u64) << 51) | (low51 & ((1u64 << 51) - 1))
}

pub fn rand_vel(r: &mut Rng, subtype: u32) -> Vel {
    Vel {
        subtype,
        ew_dir: r.bits(1) as u32,
        ew: 1 + r.below(1023) as u32,
        ns_dir: r.bits(1) as u32,
        ns: 1 + r.below(1023) as u32,
        vr_src: r.bits(1) as u32,
        vr_sign: r.bits(1) as u32,
        vr: 1 + r.below(511) as u32,
        misc: r.bits(5) as u32,
        diff_sign: r.bits(1) as u32,
        diff: r.bits(7) as u32,
    }
}

/// legal callsign characters
pub fn rand_callsign_codes(r: &mut Rng) -> [u32; 8] {
    let mut c = [0u32; 8];
    for x in c.iter_mut() {
        *x = if r.chance(1, 4) { 48 + r.below(10) as u32 } else { 1 + r.below(26) as u32 };
    }
    c
}

/// A random well-formed frame of one of the nine formats for `addr` (used as benign traffic).
pub fn rand_frame(r: &mut Rng, addr: u32) -> Frame {
    let df = *r.pick(&crate::refmodel::frames::FORMATS);
    rand_frame_df(r, addr, df)
}

pub fn rand_frame_df(r: &mut Rng, addr: u32, df: u32) -> Frame {
    use crate::refmodel::codes::*;
    let alt = (r.below(1800) as i32) * 25;
    match df {
        0 => df0(addr, r.bits(14) as u32, enc_ac13_q1(alt)),
        4 => df4(addr, r.bits(14) as u32, enc_ac13_q1(alt)),
        5 => df5(addr, r.bits(14) as u32, r.bits(13) as u32),
        11 => df11(addr, r.below(8) as u32, 0),
        16 => df16(addr, r.bits(14) as u32, enc_ac13_q1(alt), r.bits(56)),
        17 | 18 => {
            let me = match r.below(5) {
                0 => me_ident(1 + r.below(4) as u32, r.below(8) as u32, enc_callsign(&rand_callsign_codes(r))),
                1 => me_airpos(
                    9 + r.below(10) as u32,
                    r.below(4) as u32,
                    r.bits(1) as u32,
                    enc_ac12_q1(alt),
                    r.bits(1) as u32,
                    r.bits(1) as u32,
                    1 + r.below(131071) as u32,
                    1 + r.below(131071) as u32,
                ),
                2 => { let st = 1 + r.below(2) as u32; rand_vel(r, st).me() }
                3 => me_opstatus(r.below(2) as u32, r.bits(16) as u32, r.bits(16) as u32, r.below(3) as u32, 0),
                _ => me_raw(r.below(32) as u32, r.bits(51)),
            };
            if df == 17 { df17(addr, r.below(8) as u32, me) } else { df18(addr, r.below(8) as u32, me) }
        }
        20 => df20(addr, r.bits(14) as u32, enc_ac13_q1(alt), r.bits(56)),
        _ => df21(addr, r.bits(14) as u32, r.bits(13) as u32, r.bits(56)),
    }
}
