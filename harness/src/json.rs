//! Minimal JSON value + serializer (no serde available as a guaranteed offline dependency).
use std::collections::BTreeMap;
use std::fmt::Write;

#[derive(Clone, Debug)]
pub enum J {
    Null,
    Bool(bool),
    Int(i64),
    Num(f64),
    Str(String),
    Arr(Vec<J>),
    Obj(BTreeMap<String, J>),
}

impl J {
    pub fn obj() -> J {
        J::Obj(BTreeMap::new())
    }
    pub fn set(&mut self, k: &str, v: J) -> &mut J {
        if let J::Obj(m) = self {
            m.insert(k.to_string(), v);
        }
        self
    }
    pub fn with(mut self, k: &str, v: J) -> J {
        self.set(k, v);
        self
    }
    pub fn s<S: Into<String>>(s: S) -> J {
        J::Str(s.into())
    }
    pub fn i<I: TryInto<i64>>(i: I) -> J {
        J::Int(i.try_into().unwrap_or(i64::MAX))
    }
    pub fn arr_s<S: AsRef<str>>(xs: &[S]) -> J {
        J::Arr(xs.iter().map(|s| J::Str(s.as_ref().to_string())).collect())
    }
    pub fn dump(&self) -> String {
        let mut o = String::new();
        self.write(&mut o);
        o
    }
    fn write(&self, o: &mut String) {
        match self {
            J::Null => o.push_str("null"),
            J::Bool(b) => o.push_str(if *b { "true" } else { "false" }),
            J::Int(i) => {
                let _ = write!(o, "{}", i);
            }
            J::Num(f) => {
                if f.is_finite() {
                    let _ = write!(o, "{}", f);
                } else {
                    o.push_str("null");
                }
            }
            J::Str(s) => esc(s, o),
            J::Arr(a) => {
                o.push('[');
                for (i, x) in a.iter().enumerate() {
                    if i > 0 {
                        o.push(',');
                    }
                    x.write(o);
                }
                o.push(']');
            }
            J::Obj(m) => {
                o.push('{');
                for (i, (k, v)) in m.iter().enumerate() {
                    if i > 0 {
                        o.push(',');
                    }
                    esc(k, o);
                    o.push(':');
                    v.write(o);
                }
                o.push('}');
            }
        }
    }
}

fn esc(s: &str, o: &mut String) {
    o.push('"');
    for c in s.chars() {
        match c {
            '"' => o.push_str("\\\""),
            '\\' => o.push_str("\\\\"),
            '\n' => o.push_str("\\n"),
            '\r' => o.push_str("\\r"),
            '\t' => o.push_str("\\t"),
            c if (c as u32) < 0x20 => {
                let _ = write!(o, "\\u{:04x}", c as u32);
            }
            c => o.push(c),
        }
    }
    o.push('"');
}
