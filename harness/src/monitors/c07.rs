//! C07 – callsign and emitter category are decoded character-exactly
//! (DF17 TC1-4 and BDS 2,0 via DF20/21 under each gating state). The wake-class
//! letter is checked on the printed table (print sub-process).

use crate::batch::{Case, panic_loc, run_batch};
use crate::drive::Opts;
use crate::fgen::*;
use crate::json::J;
use crate::refmodel::codes::*;
use crate::refmodel::commb;
use crate::refmodel::frames::Frame;
use crate::replay::{opts_line, seg_line};
use crate::report::Report;
use crate::rng::Rng;
use crate::Ctx;
use std::collections::HashSet;

const PREV: &str = "PREVIOUS";

#[derive(Clone)]
struct Spec {
    kind: u32, // 17 ident squitter, 20/21 Comm-B 2,0
    tc: u32,
    cat: u32,
    codes: [u32; 8],
    update: bool,
    ca_prefix: u32, // CA of the DF11 prefix (update only)
}

fn specs(ctx: &Ctx, r: &mut Rng) -> Vec<Spec> {
    let mut v = Vec::new();
    let legal: Vec<u32> = (1..=26).chain(48..=57).collect();
    // every code in every position, other positions distinct legal letters
    for pos in 0..8usize {
        for code in 0..64u32 {
            let mut codes = [0u32; 8];
            for (k, c) in codes.iter_mut().enumerate() {
                *c = legal[(k * 3 + pos + 1) % legal.len()];
            }
            codes[pos] = code;
            for update in [false, true] {
                v.push(Spec { kind: 17, tc: 1 + (code + pos as u32) % 4, cat: (code + pos as u32) % 8, codes, update, ca_prefix: r.below(8) as u32 });
                for kind in [20u32, 21] {
                    if update {
                        for ca in [0u32, 3, 4, 7] {
                            v.push(Spec { kind, tc: 0, cat: 0, codes, update, ca_prefix: ca });
                        }
                    } else {
                        v.push(Spec { kind, tc: 0, cat: 0, codes, update, ca_prefix: 0 });
                    }
                }
            }
        }
    }
    // TC x CA grid
    for tc in 1..=4u32 {
        for cat in 0..8u32 {
            for update in [false, true] {
                v.push(Spec { kind: 17, tc, cat, codes: rand_callsign_codes(r), update, ca_prefix: r.below(8) as u32 });
            }
        }
    }
    // random 48-bit strings
    for _ in 0..ctx.n(4_000, 250_000) {
        let mut codes = [0u32; 8];
        for c in codes.iter_mut() {
            *c = r.bits(6) as u32;
        }
        let kind = *r.pick(&[17u32, 17, 20, 21]);
        v.push(Spec { kind, tc: 1 + r.below(4) as u32, cat: r.below(8) as u32, codes, update: r.chance(2, 3), ca_prefix: r.below(8) as u32 });
    }
    v
}

pub fn run(ctx: &Ctx) -> Vec<Report> {
    let mut rep = Report::new("C07", "callsign");
    let mut rs = Rng::derive(ctx.seed, "c07-specs", 0);
    let all = specs(ctx, &mut rs);
    let mut r = ctx.rng("c07");
    for (u, rr) in [(false, false), (true, false), (false, true), (true, true)] {
        let opts = Opts::ur(u, rr);
        let mut cases = Vec::new();
        let mut meta: Vec<(Spec, Frame)> = Vec::new();
        let mut used = HashSet::new();
        for (i, s) in all.iter().enumerate() {
            if !ctx.mine(i as u64) {
                continue;
            }
            if rr && s.kind == 17 {
                continue;
            }
            let addr = loop {
                let a = r.addr();
                if used.insert(a) {
                    break a;
                }
            };
            let chars = enc_callsign(&s.codes);
            let f = match s.kind {
                17 => df17(addr, r.below(8) as u32, me_ident(s.tc, s.cat, chars)),
                20 => df20(addr, r.bits(14) as u32, enc_ac13_q1(25 * r.below(1600) as i32), commb::enc_20(chars)),
                _ => df21(addr, r.bits(14) as u32, r.bits(13) as u32, commb::enc_20(chars)),
            };
            let prefix = if s.update { vec![df11(addr, s.ca_prefix, 0).hex()] } else { vec![] };
            cases.push(Case { addr, prefix, test: vec![f.hex()] });
            meta.push((s.clone(), f));
        }
        let upd: Vec<bool> = meta.iter().map(|m| m.0.update).collect();
        let preset = move |i: usize, p: &mut squitterator::Plane| {
            if upd[i] {
                p.ais = Some(PREV.to_string());
                p.category = (9, 9);
            }
        };
        let mut stats = (0, 0);
        let outs = run_batch(&opts, &cases, Some(&preset), &mut stats);
        rep.count("segments", stats.0 as i64);
        rep.count("lines_fed", stats.1 as i64);
        for (i, o) in outs.iter().enumerate() {
            let (s, f) = &meta[i];
            let want = ref_callsign(enc_callsign(&s.codes));
            let all_legal_or_space = s.codes.iter().all(|c| ref_char(*c).is_some() || *c == 32);
            let ctxname = format!(
                "{}:{}:{}",
                if s.kind == 17 { "ident".to_string() } else { format!("bds20/df{}/ca{}", s.kind, s.ca_prefix) },
                if s.update { "update" } else { "create" },
                opts.describe()
            );
            let key = format!("{}:{}", ctxname, f.hex());
            rep.eval(Some(key.as_bytes()));
            rep.class(&ctxname);
            let script = |alts: String, cat: Option<(u32, u32)>| {
                let mut v = vec![opts_line(&opts, None)];
                if !cases[i].prefix.is_empty() {
                    v.push(seg_line(&cases[i].prefix));
                    v.push(format!("note the monitor then plants callsign {:?} and category (9, 9) into the row", PREV));
                }
                v.push(seg_line(&cases[i].test));
                v.push("expect-nopanic".into());
                v.push(format!("expect {:06X} ais {}", cases[i].addr, alts));
                if let Some(c) = cat {
                    v.push(format!("expect {:06X} category {:?}", cases[i].addr, c));
                }
                v
            };
            if let Some(p) = &o.panic {
                rep.panic(&panic_loc(p));
                rep.violation("panic", key, format!("{} -> {}", f.hex(), p), script("(any)".into(), None));
                continue;
            }
            let Some(after) = &o.after else {
                rep.violation("row-missing", key, format!("{}: row absent", f.hex()), script("(any)".into(), None));
                continue;
            };
            let got = after.ais.clone();
            let same = |g: &Option<String>, w: &str| g.as_deref() == Some(w) || (w.is_empty() && g.is_none());
            if rep.want_sample() && i % 501 == 3 {
                rep.sample(
                    J::obj()
                        .with("frame", J::s(f.hex()))
                        .with("context", J::s(&ctxname))
                        .with("character_codes", J::s(format!("{:?}", s.codes)))
                        .with("expected_callsign", J::s(&want))
                        .with("observed", J::s(format!("{:?}", got)))
                        .with("category", J::s(format!("{:?}", after.category))),
                );
            }
            if s.kind == 17 {
                let cat_ok = after.category == (s.tc, s.cat);
                if !same(&got, &want) || !cat_ok {
                    rep.violation(
                        if !cat_ok { "category" } else { "callsign" },
                        key,
                        format!(
                            "{} [{}]: codes {:?} TC{} CA{} => callsign {:?}, category ({}, {}); observed {:?}, {:?}",
                            f.hex(), ctxname, s.codes, s.tc, s.cat, want, s.tc, s.cat, got, after.category
                        ),
                        script(format!("{:?}", Some(want.clone())), Some((s.tc, s.cat))),
                    );
                }
            } else {
                // Comm-B 2,0: gate = capability >= 4 recorded (DF11 prefix) or -R
                let gate_strong = opts.r || (s.update && s.ca_prefix >= 4);
                let gate_possible = opts.r || (s.update && s.ca_prefix >= 4);
                let prev: Option<String> = if s.update { Some(PREV.to_string()) } else { None };
                if !s.update {
                    // creating DF20/21 may contribute the address only
                    if !(got.is_none() || (gate_possible && same(&got, &want))) {
                        rep.violation("bds20-on-create", key, format!("{} [{}]: observed callsign {:?}", f.hex(), ctxname, got), script("None".into(), None));
                    }
                    continue;
                }
                if !gate_possible {
                    if got != prev {
                        rep.violation(
                            "bds20-gate-closed",
                            key.clone(),
                            format!("{} [{}]: capability {} < 4 and no -R, callsign changed {:?} -> {:?}", f.hex(), ctxname, s.ca_prefix, prev, got),
                            script(format!("{:?}", prev), None),
                        );
                    }
                } else if gate_strong {
                    let ok = same(&got, &want) || (!all_legal_or_space && got == prev);
                    if !ok {
                        rep.violation(
                            "bds20-callsign",
                            key.clone(),
                            format!("{} [{}]: BDS 2,0 codes {:?} => {:?}; observed {:?}", f.hex(), ctxname, s.codes, want, got),
                            script(format!("{:?}", Some(want.clone())), None),
                        );
                    }
                }
                // Comm-B never touches the emitter category
                if after.category != (9, 9) {
                    rep.violation("bds20-category", key, format!("{}: category changed to {:?}", f.hex(), after.category), script("(any)".into(), Some((9, 9))));
                }
            }
        }
    }
    rep.exhaustive.push("64 character codes x 8 positions (ident squitter and BDS 2,0 via DF20/DF21 x CA 0/3/4/7), TC 1..4 x CA 0..7; create/update; default/-U/-R".into());
    let mut out = vec![rep];
    if let Some(r) = super::c14::wake_letters(ctx) {
        out.push(r);
    }
    out
}
