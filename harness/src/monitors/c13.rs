//! C13 – unusable lines affect nothing but themselves.
//! Differential subsequence: table(stream with junk) == table(stream of accepted lines only),
//! and the whole file is consumed (canary last line present).

use crate::drive::{Opts, Table, diff_tables};
use crate::fgen::*;
use crate::json::J;
use crate::refmodel::frames::*;
use crate::replay::{esc_line, opts_line, seg_line_bytes};
use crate::report::Report;
use crate::rng::Rng;
use crate::Ctx;

/// lines of the bundled recordings that the reference accepts (as raw bytes)
pub fn recorded_valid_lines(repo: &str, max_per_file: usize) -> Vec<Vec<u8>> {
    let mut out = Vec::new();
    for name in ["squitters.txt", "sbs2.txt", "raw1.txt", "sbs1.txt", "raw2.txt", "df0-df16.txt", "df24.txt"] {
        let Ok(data) = std::fs::read(format!("{}/rec/{}", repo, name)) else { continue };
        let mut n = 0;
        for l in data.split(|b| *b == b'\n') {
            if std::str::from_utf8(l).is_err() {
                continue;
            }
            let d = hex_digits_of(l);
            if let Some(f) = ref_accept(&d) {
                if FORMATS.contains(&f.df()) && ref_address(&f) != Some(0) {
                    out.push(l.to_vec());
                    n += 1;
                    if n >= max_per_file {
                        break;
                    }
                }
            }
        }
    }
    out
}

pub fn junk_line(r: &mut Rng, kind: u64) -> (Vec<u8>, &'static str) {
    let hexd = |r: &mut Rng, n: usize| -> Vec<u8> { (0..n).map(|_| b"0123456789ABCDEF"[r.below(16) as usize]).collect() };
    match kind {
        0 => (vec![], "empty"),
        1 => (b"   \t ".to_vec(), "blanks"),
        2 => (b"\r".to_vec(), "lone CR"),
        3 => (vec![0u8; 1 + r.below(5) as usize], "NUL bytes"),
        4 => {
            // invalid UTF-8 with a digit count that is not a frame length under any reading
            let mut v: Vec<u8> = (0..(1 + r.below(20))).map(|_| 0x80 + r.below(0x80) as u8).collect();
            let nd = *r.pick(&[0usize, 3, 13, 15, 27, 29]);
            v.extend(hexd(r, nd));
            v.push(0xFF);
            (v, "invalid UTF-8")
        }
        5 => {
            let n = *r.pick(&[1usize, 13, 15, 25, 27, 29, 39, 41, 42, 56]);
            (hexd(r, n), "wrong digit count")
        }
        6 => {
            let n = 65_536 + r.below(200_000) as usize;
            let mut v = hexd(r, 200);
            v.resize(n, b'Z');
            (v, "over-long line")
        }
        7 => {
            // DF/length mismatch: 112-bit format in 14 digits or 56-bit format in 28 digits
            if r.chance(1, 2) {
                let f = build(17, r.addr(), 5, r.bits(56), 0);
                (f.hex()[..14].as_bytes().to_vec(), "DF17 in 14 digits")
            } else {
                let mut f = build(20, r.addr(), r.bits(27) as u32, r.bits(56), 0);
                f.set(1, 5, *r.pick(&[0u64, 4, 5, 11]));
                (f.hex().into_bytes(), "short format in 28 digits")
            }
        }
        8 => {
            let df = *r.pick(&[11u32, 17, 18]);
            let mut f = build(df, r.addr(), 5, r.bits(56), 0);
            loop {
                f.flip(6 + r.below(f.len as u64 - 5) as u32);
                if parity_fails(&f) {
                    break;
                }
            }
            (f.hex().into_bytes(), "parity-damaged squitter")
        }
        9 => (b"hello world, this is not a squitter".to_vec(), "text"),
        10 => {
            let n = 1_000_000 + r.below(3_000_000) as usize;
            (vec![b'-'; n], "multi-megabyte line")
        }
        _ => {
            let mut v = hexd(r, 28);
            v[r.below(28) as usize] = b'G';
            (v, "non-hex letter inside a frame")
        }
    }
}

pub fn run(ctx: &Ctx) -> Vec<Report> {
    let mut v = run_plain(ctx);
    v.push(run_sweep_sensitive(ctx));
    if let Some(r) = run_tcp(ctx) {
        v.push(r);
    }
    v
}

fn run_plain(ctx: &Ctx) -> Vec<Report> {
    let mut rep = Report::new("C13", "junk-lines");
    let mut r = ctx.rng("c13");
    let recorded = recorded_valid_lines(&ctx.repo, 30_000);
    rep.count("recorded_valid_lines_available", recorded.len() as i64);
    let n = ctx.share(ctx.n(480, 20_000));
    for sno in 0..n {
        let opts = Opts::ur(sno % 2 == 1, sno % 4 >= 2);
        // clean stream
        let len = 50 + r.below(450) as usize;
        let mut clean: Vec<Vec<u8>> = Vec::new();
        if !recorded.is_empty() && r.chance(1, 2) {
            let start = r.below((recorded.len().saturating_sub(len)).max(1) as u64) as usize;
            clean.extend(recorded[start..(start + len).min(recorded.len())].iter().cloned());
        } else {
            let addrs: Vec<u32> = (0..(2 + r.below(10))).map(|_| r.addr()).collect();
            for _ in 0..len {
                let a = *r.pick(&addrs);
                clean.push(rand_frame(&mut r, a).hex().into_bytes());
            }
        }
        let canary_addr = 0xCA0000 | r.bits(16) as u32;
        clean.push(df11(canary_addr, 5, 0).hex().into_bytes());
        // junk placement: arbitrary positions, always also first and last-but-canary
        let njunk = 1 + r.below(12) as usize;
        let mut dirty: Vec<(Vec<u8>, Option<&'static str>)> = clean.iter().map(|l| (l.clone(), None)).collect();
        let allow_big = !ctx.quick() || sno % 8 == 0;
        for j in 0..njunk {
            let kind = loop {
                let k = r.below(12);
                if k == 10 && !allow_big {
                    continue;
                }
                break k;
            };
            let (jl, name) = junk_line(&mut r, kind);
            let pos = match j {
                0 => 0,
                1 => dirty.len() - 1,
                _ => r.below(dirty.len() as u64) as usize,
            };
            dirty.insert(pos, (jl, Some(name)));
        }
        let tail_junk_no_newline = r.chance(1, 6);
        let mut clean_bytes = Vec::new();
        for l in &clean {
            clean_bytes.extend_from_slice(l);
            clean_bytes.push(b'\n');
        }
        let mut dirty_bytes = Vec::new();
        for (l, _) in &dirty {
            dirty_bytes.extend_from_slice(l);
            dirty_bytes.push(b'\n');
        }
        if tail_junk_no_newline {
            let jk = *r.pick(&[3u64, 4, 5, 9]);
            let (jl, _) = junk_line(&mut r, jk);
            dirty_bytes.extend_from_slice(&jl); // junk as last line without final newline
        }
        let mut tc = Table::new();
        let mut td = Table::new();
        let rc = tc.run_bytes(&opts, &clean_bytes);
        let rd = td.run_bytes(&opts, &dirty_bytes);
        let kinds: Vec<&str> = dirty.iter().filter_map(|x| x.1).collect();
        rep.eval(Some(&dirty_bytes[..dirty_bytes.len().min(4096)]));
        rep.count("lines_fed", (clean.len() + dirty.len()) as i64);
        rep.count("junk_lines", kinds.len() as i64);
        for k in &kinds {
            rep.class(k);
        }
        if rc.is_err() {
            rep.inconclusive(format!("clean stream failed: {:?}", rc));
            continue;
        }
        let sc = tc.snapshot();
        if !sc.contains_key(&canary_addr) {
            rep.inconclusive("clean run lost its own canary".into());
            continue;
        }
        let diffs = if rd.is_err() { vec![format!("{:?}", rd)] } else { diff_tables(&sc, &td.snapshot(), 4) };
        if rep.want_sample() {
            rep.sample(
                J::obj()
                    .with("options", J::s(opts.describe()))
                    .with("clean_lines", J::i(clean.len() as u64))
                    .with("junk_kinds", J::arr_s(&kinds))
                    .with("first_junk", J::s(dirty.iter().find(|x| x.1.is_some()).map(|x| esc_line(&x.0[..x.0.len().min(60)])).unwrap_or_default()))
                    .with("rows_clean", J::i(sc.len() as u64))
                    .with("tables_equal", J::Bool(diffs.is_empty())),
            );
        }
        if diffs.is_empty() {
            continue;
        }
        // delta-debug: find a single junk line that alone makes the difference
        let mut culprit: Option<(usize, &'static str)> = None;
        for (i, (_, name)) in dirty.iter().enumerate() {
            let Some(name) = name else { continue };
            let mut bytes = Vec::new();
            let mut ci = 0;
            for (j, (l, nm)) in dirty.iter().enumerate() {
                if nm.is_none() {
                    bytes.extend_from_slice(l);
                    bytes.push(b'\n');
                    ci += 1;
                } else if j == i {
                    bytes.extend_from_slice(l);
                    bytes.push(b'\n');
                }
            }
            let _ = ci;
            let mut t1 = Table::new();
            let r1 = t1.run_bytes(&opts, &bytes);
            if r1.is_err() || !diff_tables(&sc, &t1.snapshot(), 1).is_empty() {
                culprit = Some((i, name));
                break;
            }
        }
        let (class, key, script) = match culprit {
            Some((i, name)) => {
                // minimal replay: up to 3 accepted lines before, the junk line, the accepted lines after (bounded)
                let before: Vec<Vec<u8>> = dirty[..i].iter().filter(|x| x.1.is_none()).map(|x| x.0.clone()).collect();
                let after: Vec<Vec<u8>> = dirty[i + 1..].iter().filter(|x| x.1.is_none()).map(|x| x.0.clone()).collect();
                let mut lines = before.clone();
                let junk = dirty[i].0.clone();
                lines.push(if junk.len() > 2000 { junk[..2000].to_vec() } else { junk });
                lines.extend(after.iter().cloned());
                let mut sc2 = vec![opts_line(&opts, None), format!("note junk line kind: {} (position {} of {}; lines longer than 2000 bytes are cut in this script)", name, i, dirty.len()), seg_line_bytes(&lines), "expect-nopanic".into()];
                sc2.push(format!("expect-present {:06X}", canary_addr));
                (format!("junk-changed-table:{}", name), format!("{} at line {}", name, i), sc2)
            }
            None => ("junk-changed-table:combination".to_string(), kinds.join("+"), vec![opts_line(&opts, None), seg_line_bytes(&dirty.iter().map(|x| if x.0.len() > 2000 { x.0[..2000].to_vec() } else { x.0.clone() }).collect::<Vec<_>>())]),
        };
        rep.violation(&class, key, format!("stream of {} accepted lines + junk {:?}: table differs from the clean stream's: {}", clean.len(), kinds, diffs.join(" | ")), script);
        if let Err(crate::drive::RunErr::Panic(p)) = &rd {
            rep.panic(&crate::batch::panic_loc(p));
        }
    }
    vec![rep]
}

/// Junk lines must not move the expiry sweep either. The table is preloaded (same bytes on both
/// sides) with aircraft that are then aged beyond `delete_after`, so that every sweep matters: an
/// expired aircraft heard again before the next sweep keeps its row, heard after it starts a fresh
/// one. If junk lines advanced the sweep counter (or anything else that decides when accepted lines
/// are swept), the junk-laden stream and its accepted subsequence end in different tables.
fn run_sweep_sensitive(ctx: &Ctx) -> Report {
    let mut rep = Report::new("C13", "junk-lines-vs-expiry-sweep");
    let mut r = ctx.rng("c13sweep");
    let n = ctx.share(ctx.n(1600, 60_000));
    for sno in 0..n {
        let mut opts = Opts::ur(sno % 2 == 1, sno % 4 >= 2);
        opts.delete_after = *r.pick(&[5i64, 60, 600]);
        let nold = 2 + r.below(5) as usize;
        let old: Vec<u32> = (0..nold).map(|_| r.addr()).collect();
        let mut prelude: Vec<Vec<u8>> = Vec::new();
        for a in &old {
            for f in super::common::rich_history(&mut r, *a) {
                prelude.push(f.hex().into_bytes());
            }
        }
        let fresh: Vec<u32> = (0..(1 + r.below(3))).map(|_| r.addr()).collect();
        let len = 3 + r.below(40) as usize;
        let mut clean: Vec<Vec<u8>> = Vec::new();
        for _ in 0..len {
            let a = if r.chance(1, 3) { *r.pick(&old) } else { *r.pick(&fresh) };
            // short replies (DF11/DF4/DF5) leave most of an old row's fields as they are: a row that was
            // swept in between is then visibly different from one that was kept
            let f = match r.below(4) {
                0 => df11(a, 5, 0),
                1 => df5(a, 0, r.bits(13) as u32),
                2 => df4(a, 0, crate::refmodel::codes::enc_ac13_q1(25 * r.below(1500) as i32)),
                _ => rand_frame(&mut r, a),
            };
            clean.push(f.hex().into_bytes());
        }
        let mut dirty: Vec<(Vec<u8>, Option<&'static str>)> = clean.iter().map(|l| (l.clone(), None)).collect();
        let njunk = 1 + r.below(14) as usize;
        for _ in 0..njunk {
            let kind = *r.pick(&[0u64, 1, 2, 3, 4, 5, 7, 8, 9, 11]);
            let (jl, name) = junk_line(&mut r, kind);
            let pos = r.below(dirty.len() as u64 + 1) as usize;
            dirty.insert(pos, (jl, Some(name)));
        }
        let age = opts.delete_after as f64 * 3.0 + 10.0;
        let mut tc = Table::new();
        let mut td = Table::new();
        let pre_ok = tc.run_bytes(&opts, &prelude.join(&b'\n')).is_ok() && td.run_bytes(&opts, &prelude.join(&b'\n')).is_ok();
        tc.shift_back(age, None);
        td.shift_back(age, None);
        let clean_bytes = clean.join(&b'\n');
        let dirty_lines: Vec<Vec<u8>> = dirty.iter().map(|x| x.0.clone()).collect();
        let dirty_bytes = dirty_lines.join(&b'\n');
        let rc = tc.run_bytes(&opts, &clean_bytes);
        let rd = td.run_bytes(&opts, &dirty_bytes);
        let kinds: Vec<&str> = dirty.iter().filter_map(|x| x.1).collect();
        if !pre_ok || rc.is_err() {
            rep.inconclusive(format!("prelude or clean stream failed: {:?}", rc));
            continue;
        }
        let sc = tc.snapshot();
        let sd = td.snapshot();
        let swept_clean = old.iter().filter(|a| !sc.contains_key(a)).count();
        rep.eval(Some(&dirty_bytes[..dirty_bytes.len().min(4096)]));
        rep.count("lines_fed", (clean.len() + dirty.len() + 2 * prelude.len()) as i64);
        rep.count("junk_lines", kinds.len() as i64);
        rep.count("expired_rows_preloaded", nold as i64);
        rep.count("expired_rows_swept_in_clean_run", swept_clean as i64);
        rep.class(&format!("accepted lines {}..{}", len / 11 * 11, len / 11 * 11 + 10));
        let diffs = if rd.is_err() { vec![format!("{:?}", rd)] } else { diff_tables(&sc, &sd, 4) };
        if rep.want_sample() {
            rep.sample(
                J::obj()
                    .with("options", J::s(opts.describe()))
                    .with("expired_rows_preloaded", J::i(nold as u64))
                    .with("accepted_lines", J::i(len as u64))
                    .with("junk_kinds", J::arr_s(&kinds))
                    .with("expired_rows_left_after_clean_run", J::i((nold - swept_clean) as u64))
                    .with("tables_equal", J::Bool(diffs.is_empty())),
            );
        }
        if diffs.is_empty() {
            continue;
        }
        let mut script = vec![opts_line(&opts, None), "note prelude, then every row is aged beyond delete_after".to_string(), seg_line_bytes(&prelude), format!("shift {}", age), "note the junk-laden stream; expectations come from the run of its accepted lines only".to_string(), seg_line_bytes(&dirty_lines), "expect-nopanic".into()];
        let mut addrs: Vec<u32> = sc.keys().chain(sd.keys()).cloned().collect();
        addrs.sort();
        addrs.dedup();
        for a in addrs {
            match (sc.get(&a), sd.get(&a)) {
                (Some(_), None) => script.push(format!("expect-present {:06X}", a)),
                (None, Some(_)) => script.push(format!("expect-absent {:06X}", a)),
                (Some(x), Some(y)) => {
                    let (fx, fy) = (x.unstamped().fields(), y.unstamped().fields());
                    for ((k, v), (_, w)) in fx.iter().zip(fy.iter()) {
                        if v != w && !k.contains("time") && !k.contains("stamp") {
                            script.push(format!("expect {:06X} {} {}", a, k, v));
                        }
                    }
                }
                _ => {}
            }
        }
        rep.violation("junk-moved-the-sweep", kinds.join("+"), format!("{} expired rows preloaded, {} accepted lines + junk {:?} (delete_after {}): table differs from the table of the accepted lines alone: {}", nold, len, kinds, opts.delete_after, diffs.join(" | ")), script);
    }
    rep
}

/// TCP source: the built CLI reads the junk-laden stream from a loopback server (one connection that stays
/// open); its last refresh must equal the last refresh of the same binary reading the *clean* stream from a file.
fn run_tcp(ctx: &Ctx) -> Option<Report> {
    use super::c18::{case_script, run_case, Case, Outcome};
    let cli = ctx.cli.clone()?;
    let mut rep = Report::new("C13", "junk-lines-over-tcp");
    let mut r = ctx.rng("c13tcp");
    let n = ctx.share(ctx.n(32, 640));
    for k in 0..n {
        let addrs: Vec<u32> = (0..(2 + r.below(5))).map(|_| r.addr()).collect();
        let mut clean: Vec<Vec<u8>> = Vec::new();
        for a in &addrs {
            if r.chance(1, 2) {
                clean.extend(super::common::rich_history(&mut r, *a).iter().map(|f| f.hex().into_bytes()));
            }
        }
        for _ in 0..(10 + r.below(40)) {
            let a = *r.pick(&addrs);
            clean.push(rand_frame(&mut r, a).hex().into_bytes());
        }
        r.shuffle(&mut clean);
        clean.push(df11(0xCA0000 | r.bits(16) as u32, 5, 0).hex().into_bytes());
        let mut dirty: Vec<Vec<u8>> = clean.clone();
        let mut kinds = Vec::new();
        for j in 0..(1 + r.below(8)) {
            let kind = *r.pick(&[0u64, 1, 2, 3, 4, 5, 6, 7, 8, 9, 11]);
            let (jl, name) = junk_line(&mut r, kind);
            let pos = if j == 0 { 0 } else { r.below(dirty.len() as u64) as usize }; // never after the canary
            dirty.insert(pos, jl);
            kinds.push(name);
        }
        let mut clean_bytes = Vec::new();
        for l in &clean {
            clean_bytes.extend_from_slice(l);
            clean_bytes.push(b'\n');
        }
        let mut opts = Vec::new();
        if k % 2 == 1 {
            opts.push("-U".to_string());
        }
        let case = Case { reference_bytes: Some(clean_bytes), holds: vec![], phases: vec![], healthy: dirty.clone(), opts };
        let port = 18000 + (ctx.shard as u16) * 100 + (k % 100) as u16;
        let mut log = Vec::new();
        let mut out = run_case(&cli, port, &case, &mut log);
        if matches!(out, Outcome::Inconclusive(_)) {
            log.clear();
            out = run_case(&cli, port, &case, &mut log);
        }
        for kd in &kinds {
            rep.class(kd);
        }
        match out {
            Outcome::Held { rows, .. } => {
                rep.eval(Some(&dirty.concat()[..dirty.concat().len().min(4096)]));
                rep.count("tcp_runs", 1);
                rep.count("junk_lines", kinds.len() as i64);
                rep.count("rows_in_final_tables_compared", rows as i64);
                if rep.want_sample() {
                    rep.sample(J::obj().with("source", J::s("tcp")).with("clean_lines", J::i(clean.len() as u64)).with("junk_kinds", J::arr_s(&kinds)).with("final_table_rows", J::i(rows as u64)).with("equal_to_file_run_of_clean_stream", J::Bool(true)));
                }
            }
            Outcome::Violation(class, detail) => {
                rep.eval(Some(&dirty.concat()[..dirty.concat().len().min(4096)]));
                let mut script = case_script(port, "", &case);
                script.push(format!("note junk kinds {:?}; the reference is the file run of the clean stream", kinds));
                rep.violation(&format!("tcp-{}", class), kinds.join("+"), format!("junk {:?} over TCP: {}", kinds, detail), script);
            }
            Outcome::Inconclusive(why) => rep.inconclusive(why),
        }
    }
    Some(rep)
}
