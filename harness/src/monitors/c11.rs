//! C11 – each parameter shows the latest value its own frames carried; no cross-talk;
//! re-feeding the frame just applied changes nothing.
//! Per-step relative rules (Set / SetOrKeep / Keep / Any) are equivalent, by induction over
//! the history, to comparing with a reference fold of the whole prefix.

use super::c10::{Gate, judge_commb};
use crate::drive::{Opts, Row};
use crate::fgen::*;
use crate::json::J;
use crate::lockstep::*;
use crate::refmodel::codes::*;
use crate::refmodel::commb::*;
use crate::refmodel::cpr::{self, Global};
use crate::refmodel::velocity::*;
use crate::report::Report;
use crate::rng::Rng;
use crate::Ctx;
use std::collections::HashSet;
use std::sync::Mutex;

pub const NKINDS: usize = 30;

#[derive(Clone, Debug)]
pub enum Rule {
    /// must render as one of these (Row::fields renderings)
    Set(Vec<String>),
    /// blank ("None") or unchanged
    SetOrKeep,
    /// either one of these or unchanged
    SetAltsOrKeep(Vec<String>),
    Keep,
    Any,
}

#[derive(Clone, Debug)]
pub struct Frame1 {
    pub kind: usize,
    pub name: &'static str,
    pub hex: String,
    /// rules for named fields; every judged field not listed is Keep
    pub rules: Vec<(&'static str, Rule)>,
    /// Comm-B reply: MB field (judged through the C10 oracle)
    pub mb: Option<u64>,
    pub cap: Option<(bool, u32)>, // (is_df11, ca)
    /// airborne position: (parity, cpr lat, cpr lon, true lat, true lon); zero field => not received
    pub pos: Option<(u32, u32, u32, f64, f64)>,
    pub taints_cpr: bool,
    pub ss: Option<u32>,
    pub zero_ac12: bool,
}

pub const JUDGED: [&str; 26] = [
    "capability",
    "category",
    "ais",
    "altitude",
    "squawk",
    "surveillance_status",
    "vrate",
    "lat",
    "lon",
    "distance_from_observer",
    "grspeed",
    "track",
    "adsb_version",
    "threat_encounter",
    "selected_altitude",
    "barometric_pressure_setting",
    "roll_angle",
    "track_angle_rate",
    "true_airspeed",
    "heading",
    "indicated_airspeed",
    "mach_number",
    "icao",
    "reg",
    "cap_bds",
    "cap_flags",
];

fn some<T: std::fmt::Debug>(v: T) -> String {
    format!("Some({:?})", v)
}

fn alt_rule(e: AltExp) -> Rule {
    match e {
        AltExp::Value(v) => Rule::Set(vec![some(v)]),
        AltExp::NoValue => Rule::SetOrKeep,
        AltExp::Unconstrained => Rule::Any,
    }
}

fn vel_rules(v: &Vel, vr_optional: bool, with_gs: bool) -> Vec<(&'static str, Rule)> {
    let e = ref_velocity(v);
    let mut out = Vec::new();
    if with_gs {
        out.push((
            "grspeed",
            match &e.gs {
                Some(s) => Rule::Set(s.iter().map(some).collect()),
                None => Rule::SetOrKeep,
            },
        ));
        out.push((
            "track",
            match &e.track {
                Some(s) => Rule::Set(s.iter().map(some).collect()),
                None => Rule::SetOrKeep,
            },
        ));
    }
    out.push((
        "vrate",
        match e.vrate {
            Some(x) => {
                if vr_optional {
                    Rule::SetAltsOrKeep(vec![some(x)])
                } else {
                    Rule::Set(vec![some(x)])
                }
            }
            None => Rule::SetOrKeep,
        },
    ));
    out
}

fn pos_lat_lon(r: &mut Rng) -> (f64, f64) {
    (r.f64() * 160.0 - 80.0, r.f64() * 350.0 - 175.0)
}

/// Instantiate frame kind `k` for `addr` with fresh random values.
/// `near` = position around which airborne-position frames are generated (per aircraft).
pub fn make_frame(r: &mut Rng, k: usize, addr: u32, near: (f64, f64)) -> Frame1 {
    let hi14 = r.bits(14) as u32;
    let alt = 25 * (40 + r.below(1800) as i32);
    let df17ca = r.below(8) as u32;
    let mut f = Frame1 { kind: k, name: "", hex: String::new(), rules: vec![], mb: None, cap: None, pos: None, taints_cpr: false, ss: None, zero_ac12: false };
    let any_ext: Vec<(&'static str, Rule)> = vec![("capability", Rule::Any)];
    match k {
        0 => {
            f.name = "DF4 altitude";
            f.hex = df4(addr, hi14, enc_ac13_q1(alt)).hex();
            f.rules = vec![("altitude", alt_rule(AltExp::Value(alt as u32)))];
        }
        1 => {
            f.name = "DF4 all-zero altitude";
            f.hex = df4(addr, hi14, 0).hex();
            f.rules = vec![("altitude", Rule::SetOrKeep)];
        }
        2 => {
            f.name = "DF4 negative altitude";
            let a = -1000 + 25 * r.below(40) as i32;
            f.hex = df4(addr, hi14, enc_ac13_q1(a)).hex();
            f.rules = vec![("altitude", Rule::SetOrKeep)];
        }
        3 => {
            f.name = "DF5 identity";
            let id = r.bits(13) as u32;
            f.hex = df5(addr, hi14, id).hex();
            f.rules = vec![("squawk", Rule::Set(vec![some(ref_squawk(id))]))];
        }
        4 | 5 => {
            let ca = if k == 4 { r.below(4) as u32 } else { 4 + r.below(4) as u32 };
            f.name = if k == 4 { "DF11 CA<4" } else { "DF11 CA>=4" };
            f.hex = df11(addr, ca, if r.chance(1, 2) { r.below(128) as u32 } else { 0 }).hex();
            f.rules = vec![("capability", Rule::Set(vec![format!("{}", ca)]))];
            f.cap = Some((true, ca));
        }
        6 | 7 => {
            let tc = if k == 6 { 4 } else { 1 + r.below(3) as u32 };
            let cat = r.below(8) as u32;
            let codes = rand_callsign_codes(r);
            f.name = if k == 6 { "ident TC4" } else { "ident TC1-3" };
            f.hex = df17(addr, df17ca, me_ident(tc, cat, enc_callsign(&codes))).hex();
            f.rules = any_ext.clone();
            f.rules.push(("ais", Rule::Set(vec![some(ref_callsign(enc_callsign(&codes)))])));
            f.rules.push(("category", Rule::Set(vec![format!("{:?}", (tc, cat))])));
            f.cap = Some((false, df17ca));
        }
        8 => {
            f.name = "surface position TC5-8";
            f.hex = df17(addr, df17ca, me_surface(5 + r.below(4) as u32, r.bits(7) as u32, r.bits(1) as u32, r.bits(7) as u32, 0, r.bits(1) as u32, 1 + r.below(131071) as u32, 1 + r.below(131071) as u32)).hex();
            f.rules = any_ext.clone();
            f.rules.push(("altitude", Rule::Set(vec!["None".into()])));
            f.rules.push(("track", Rule::Any));
            f.rules.push(("lat", Rule::Any));
            f.rules.push(("lon", Rule::Any));
            f.rules.push(("distance_from_observer", Rule::Any));
            f.taints_cpr = true;
            f.cap = Some((false, df17ca));
        }
        9 | 10 | 11 => {
            let parity = if k == 10 { 1 } else if k == 9 { 0 } else { r.bits(1) as u32 };
            f.name = match k {
                9 => "airborne position even",
                10 => "airborne position odd",
                _ => "airborne position, zero altitude code",
            };
            let d = r.f64() * 0.002;
            let b = r.f64() * std::f64::consts::TAU;
            let (la, lo) = ((near.0 + d * b.cos()).clamp(-86.0, 86.0), near.1 + d * b.sin());
            let c = cpr::encode(la, lo, parity);
            let ss = r.below(4) as u32;
            let ac12 = if k == 11 {
                if r.chance(1, 2) { 0 } else { enc_ac12_q1(-1000 + 25 * r.below(40) as i32) }
            } else {
                enc_ac12_q1(alt)
            };
            f.hex = df17(addr, df17ca, me_airpos(9 + r.below(10) as u32, ss, r.bits(1) as u32, ac12, r.bits(1) as u32, parity, c.0, c.1)).hex();
            f.rules = any_ext.clone();
            f.rules.push(("altitude", if k == 11 { Rule::SetOrKeep } else { alt_rule(AltExp::Value(alt as u32)) }));
            f.rules.push(("surveillance_status", Rule::Any)); // judged through the learned representation
            f.zero_ac12 = k == 11 && ac12 == 0;
            f.pos = Some((parity, c.0, c.1, la, lo));
            f.ss = Some(ss);
            f.cap = Some((false, df17ca));
        }
        12 | 13 | 14 | 15 => {
            let st = match k {
                12 | 14 => 1,
                13 => 2,
                _ => 3 + r.below(2) as u32,
            };
            let mut v = rand_vel(r, st);
            if k == 14 {
                if r.chance(1, 2) {
                    v.ew = 0
                } else {
                    v.ns = 0
                }
                v.vr = 0;
            }
            f.name = match k {
                12 => "velocity subtype 1",
                13 => "velocity subtype 2",
                14 => "velocity with zero fields",
                _ => "velocity subtype 3/4",
            };
            f.hex = df17(addr, df17ca, v.me()).hex();
            f.rules = any_ext.clone();
            f.rules.extend(vel_rules(&v, k == 15, k != 15));
            if k == 15 {
                f.rules.push(("heading", Rule::Any));
            }
            f.cap = Some((false, df17ca));
        }
        16 => {
            f.name = "position with GNSS height TC20-22";
            f.hex = df17(addr, df17ca, me_airpos(20 + r.below(3) as u32, r.below(4) as u32, 0, r.bits(12) as u32, 0, r.bits(1) as u32, 0, 0)).hex();
            f.rules = any_ext.clone();
            f.rules.push(("surveillance_status", Rule::Any));
            f.cap = Some((false, df17ca));
        }
        17 => {
            f.name = "operational status TC31";
            let ver = r.below(3) as u32;
            f.hex = df17(addr, df17ca, me_opstatus(r.below(2) as u32, r.bits(16) as u32, r.bits(16) as u32, ver, r.bits(13) as u32)).hex();
            f.rules = any_ext.clone();
            f.rules.push(("adsb_version", Rule::Set(vec![some(ver)])));
            f.cap = Some((false, df17ca));
        }
        18 => {
            f.name = "undecoded type code";
            let tc = *r.pick(&[0u32, 23, 24, 25, 26, 27, 28, 29, 30]);
            f.hex = df17(addr, df17ca, me_raw(tc, r.bits(51))).hex();
            f.rules = any_ext.clone();
            f.cap = Some((false, df17ca));
        }
        19..=25 | 29 => {
            let (mb, name): (u64, &'static str) = match k {
                19 => (enc_17(true, true, true, r.bits(24) as u32), "Comm-B 1,7 report"),
                20 => (enc_20(enc_callsign(&rand_callsign_codes(r))), "Comm-B 2,0"),
                21 => loop {
                    let m = enc_40(1 + r.below(4095) as u32, 1 + r.below(4095) as u32, 1 + r.below(4095) as u32, 1 + r.below(7) as u32, 1 + r.below(3) as u32, [true; 5]);
                    if super::c10::required_register(m) == Some(Reg::B40) {
                        break (m, "Comm-B 4,0");
                    }
                },
                22 => loop {
                    let (m, _) = super::c10::gen_50(r);
                    if super::c10::required_register(m) == Some(Reg::B50) {
                        break (m, "Comm-B 5,0");
                    }
                },
                23 => loop {
                    let (m, _) = super::c10::gen_60(r);
                    if super::c10::required_register(m) == Some(Reg::B60) {
                        break (m, "Comm-B 6,0");
                    }
                },
                24 => (r.bits(56), "Comm-B random MB"),
                25 => ((0x30u64 << 48) | (r.bits(48) & 0xFFFF_FFFF_FFFF), "Comm-B 3,0"),
                _ => {
                    let mut st = [true; 5];
                    st[r.below(3) as usize] = false;
                    (enc_40(1 + r.below(4095) as u32, 1 + r.below(4095) as u32, 1 + r.below(4095) as u32, 3, 1, st), "Comm-B 4,0 status cleared")
                }
            };
            f.name = name;
            f.mb = Some(mb);
            if k % 2 == 0 {
                f.hex = df20(addr, hi14, enc_ac13_q1(alt), mb).hex();
                f.rules = vec![("altitude", alt_rule(AltExp::Value(alt as u32)))];
            } else {
                let id = r.bits(13) as u32;
                f.hex = df21(addr, hi14, id, mb).hex();
                f.rules = vec![("squawk", Rule::Set(vec![some(ref_squawk(id))]))];
            }
            // capability report flags are bookkeeping, not a displayed parameter
            f.rules.push(("cap_bds", Rule::Any));
            f.rules.push(("cap_flags", Rule::Any));
        }
        26 => {
            f.name = "DF0";
            f.hex = df0(addr, hi14, enc_ac13_q1(alt)).hex();
            f.rules = vec![("altitude", Rule::Any)];
        }
        27 => {
            f.name = "DF16";
            f.hex = df16(addr, hi14, enc_ac13_q1(alt), r.bits(56)).hex();
            f.rules = vec![("altitude", Rule::Any)];
        }
        _ => {
            f.name = "DF18 ident";
            f.hex = df18(addr, r.below(8) as u32, me_ident(1 + r.below(4) as u32, r.below(8) as u32, enc_callsign(&rand_callsign_codes(r)))).hex();
            f.rules = vec![("ais", Rule::Any), ("category", Rule::Any), ("capability", Rule::Any)];
        }
    }
    f
}

fn fld(row: &Row, name: &str) -> String {
    row.fields().into_iter().find(|(k, _)| *k == name).map(|(_, v)| v).unwrap_or_default()
}
use super::c10::Rendered;

/// learned representation of the 2-bit surveillance status (function of the value, injective)
static SS_REP: Mutex<[Option<char>; 4]> = Mutex::new([None; 4]);
static GILLHAM: Mutex<Option<Vec<Option<u32>>>> = Mutex::new(None);

#[derive(Clone)]
struct AcState {
    gate: Gate,
    slots: [Option<(f64, u32, u32, f64, f64)>; 2],
    tainted: [bool; 2],
    near: (f64, f64),
}

#[derive(Clone, Debug)]
struct PlanStep {
    ac: usize,
    frame: Frame1,
    dup: bool,
    gap: f64,
}

fn build_history(r: &mut Rng, addrs: &[u32], seq: &[(usize, usize)], gaps: bool) -> (History, Vec<PlanStep>) {
    let nears: Vec<(f64, f64)> = addrs.iter().map(|_| pos_lat_lon(r)).collect();
    let mut steps = Vec::new();
    let mut plan = Vec::new();
    for (n, (ac, kind)) in seq.iter().enumerate() {
        let fr = make_frame(r, *kind, addrs[*ac], nears[*ac]);
        let gap = if gaps && n > 0 { *r.pick(&[0.0, 0.0, 1.0, 2.0, 4.0, 7.0]) } else { 0.0 };
        steps.push(Step { shift: gap, lines: vec![fr.hex.clone()] });
        plan.push(PlanStep { ac: *ac, frame: fr.clone(), dup: false, gap });
        // idempotence probe: the same line again
        steps.push(Step { shift: 0.0, lines: vec![fr.hex.clone()] });
        plan.push(PlanStep { ac: *ac, frame: fr, dup: true, gap: 0.0 });
    }
    (History { addrs: addrs.to_vec(), steps }, plan)
}

pub fn run(ctx: &Ctx) -> Vec<Report> {
    let mut rep = Report::new("C11", "row-fold");
    *GILLHAM.lock().unwrap() = super::c05::load_gillham(&ctx.known_dir);
    let mut r = ctx.rng("c11");
    // ---- bounded-exhaustive part: every sequence of kinds up to a length, generated identically on all shards
    let maxlen1 = if ctx.quick() { 2 } else { 3 };
    let mut seqs: Vec<(usize, Vec<(usize, usize)>)> = Vec::new(); // (#aircraft, sequence of (aircraft, kind))
    for len in 1..=maxlen1 {
        let total = NKINDS.pow(len as u32);
        for n in 0..total {
            let mut m = n;
            let mut seq = Vec::with_capacity(len);
            for _ in 0..len {
                seq.push((0usize, m % NKINDS));
                m /= NKINDS;
            }
            seqs.push((1, seq));
        }
    }
    // two aircraft, length 2 (all (aircraft,kind) pairs)
    for a0 in 0..2 {
        for k0 in 0..NKINDS {
            for a1 in 0..2 {
                for k1 in 0..NKINDS {
                    if a0 == a1 {
                        continue;
                    }
                    seqs.push((2, vec![(a0, k0), (a1, k1)]));
                    // three frames so that the second aircraft's frame hits an existing row
                    seqs.push((2, vec![(a1, 5), (a0, k0), (a1, k1)]));
                }
            }
        }
    }
    rep.exhaustive.push(format!("all sequences of the {} frame kinds up to length {} for one aircraft, all interleaved pairs over two aircraft; x default/-U x -R", NKINDS, maxlen1));
    let optsets = [(false, false), (true, false), (false, true), (true, true)];
    let mut work: Vec<(usize, (usize, Vec<(usize, usize)>))> = Vec::new();
    for (oi, _) in optsets.iter().enumerate() {
        for (n, s) in seqs.iter().enumerate() {
            if ctx.mine((n + oi) as u64) {
                work.push((oi, s.clone()));
            }
        }
    }
    // ---- random long histories
    let nrand = ctx.share(ctx.n(6_000, 200_000));
    for i in 0..nrand {
        let nac = 1 + r.below(4) as usize;
        let len = if ctx.quick() { 6 + r.below(30) } else { 10 + r.below(190) } as usize;
        let seq: Vec<(usize, usize)> = (0..len).map(|_| (r.below(nac as u64) as usize, r.below(NKINDS as u64) as usize)).collect();
        work.push(((i % 4) as usize, (nac, seq)));
    }
    for oi in 0..4 {
        let opts = Opts::ur(optsets[oi].0, optsets[oi].1);
        let mine: Vec<&(usize, (usize, Vec<(usize, usize)>))> = work.iter().filter(|w| w.0 == oi).collect();
        // group so that a batch holds at most ~4000 rows and histories of similar length
        let mut sorted = mine.clone();
        sorted.sort_by_key(|w| w.1 .1.len());
        let mut i = 0;
        while i < sorted.len() {
            let len0 = sorted[i].1 .1.len();
            let cap = if len0 > 40 { 256 } else { 2048 };
            let mut hs = Vec::new();
            let mut plans = Vec::new();
            let mut used: HashSet<u32> = HashSet::new();
            let mut rows = 0;
            while i < sorted.len() && hs.len() < cap && rows < 4000 {
                let (nac, seq) = &sorted[i].1;
                let mut addrs = Vec::new();
                while addrs.len() < *nac {
                    let a = r.addr();
                    if used.insert(a) {
                        addrs.push(a);
                    }
                }
                let (h, p) = build_history(&mut r, &addrs, seq, seq.len() > 3);
                rows += nac;
                hs.push(h);
                plans.push(p);
                i += 1;
            }
            let mut st = LsStats::default();
            let outs = run_lockstep(&opts, &hs, &mut st);
            rep.count("segments", st.segments as i64);
            rep.count("lines_fed", st.lines as i64);
            for (n, o) in outs.iter().enumerate() {
                judge(&mut rep, &opts, &hs[n], &plans[n], o, st.max_pair_wall);
            }
        }
    }
    vec![rep]
}

fn judge(rep: &mut Report, opts: &Opts, h: &History, plan: &[PlanStep], o: &HistOut, wall: f64) {
    if let Some((k, p)) = &o.panic {
        rep.panic(&crate::batch::panic_loc(p));
        let mut sc = history_script(opts, None, h, *k);
        sc.push("expect-nopanic".into());
        rep.violation("panic", format!("step {} {}", k, plan[*k].frame.name), p.clone(), sc);
        return;
    }
    let mut acs: Vec<AcState> = h.addrs.iter().map(|_| AcState { gate: Gate::new(), slots: [None, None], tainted: [false, false], near: (0.0, 0.0) }).collect();
    let mut clock = 0.0;
    let mut existed: Vec<bool> = vec![false; h.addrs.len()];
    for (k, ob) in o.obs.iter().enumerate() {
        let ps = &plan[k];
        clock += ps.gap;
        let fr = &ps.frame;
        let addr = h.addrs[ps.ac];
        let key = format!("{}|{}|{}", opts.describe(), h.steps[..=k].iter().map(|s| s.lines[0].as_str()).collect::<Vec<_>>().join(","), ps.dup);
        let fail = |rep: &mut Report, class: &str, msg: String, exps: Vec<String>| {
            let mut sc = history_script(opts, None, h, k);
            sc.push("expect-nopanic".into());
            sc.extend(exps);
            sc.push(format!("show {:06X}", addr));
            rep.violation(
                class,
                format!("{}{} after {:?}", fr.name, if ps.dup { " (re-fed)" } else { "" }, plan[..k].iter().filter(|p| !p.dup).map(|p| p.frame.name).collect::<Vec<_>>()),
                format!("{} | frame {} ({}) | history {:?}", msg, fr.hex, fr.name, plan[..=k].iter().map(|p| format!("{}{}", if p.dup { "again:" } else { "" }, p.frame.hex)).collect::<Vec<_>>()),
                sc,
            );
        };
        // ---- cross-talk: rows of the history's other aircraft must be bit-identical
        for (j, a) in h.addrs.iter().enumerate() {
            if j == ps.ac {
                continue;
            }
            if ob.before[j] != ob.after[j] {
                let d = match (&ob.before[j], &ob.after[j]) {
                    (Some(b), Some(a2)) => b.diff(a2).join("; "),
                    (b, a2) => format!("presence {} -> {}", b.is_some(), a2.is_some()),
                };
                let exps = match (&ob.before[j], &ob.after[j]) {
                    (Some(b), Some(a2)) => b.diff_names(a2).iter().filter(|n| !n.contains("time")).map(|n| format!("expect {:06X} {} {}", a, n, fld(b, n))).collect(),
                    (None, Some(_)) => vec![format!("expect-absent {:06X}", a)],
                    _ => vec![format!("expect-present {:06X}", a)],
                };
                fail(rep, "cross-talk", format!("frame for {:06X} changed the row of {:06X}: {}", addr, a, d), exps);
                return;
            }
        }
        let Some(after) = ob.after[ps.ac].as_ref() else {
            fail(rep, "row-missing", format!("no row for {:06X} after an accepted frame", addr), vec![format!("expect-present {:06X}", addr)]);
            return;
        };
        let before = ob.before[ps.ac].as_ref();
        rep.eval(Some(key.as_bytes()));
        rep.class(&format!("{}:{}:{}{}", opts.describe(), fr.name, if before.is_some() { "update" } else { "create" }, if ps.dup { ":refeed" } else { "" }));
        rep.count("rows_compared", h.addrs.len() as i64);
        if after.icao != addr {
            fail(rep, "icao-field", format!("row of {:06X} carries icao {:06X}", addr, after.icao), vec![format!("expect {:06X} icao {:06X}", addr, addr)]);
            return;
        }
        if ps.dup {
            // idempotence: only claimed for a frame that was applied to an existing row
            let applied_to_existing = existed[ps.ac];
            existed[ps.ac] = true;
            if applied_to_existing {
                let b = before.unwrap();
                let (ub, ua) = (b.unstamped(), after.unstamped());
                if ub != ua {
                    let names = ub.diff_names(&ua);
                    let exps = names.iter().map(|n| format!("expect {:06X} {} {}", addr, n, fld(&ub, n))).collect();
                    fail(rep, "refeed-changes-row", format!("feeding the same frame again changed: {}", ub.diff(&ua).join("; ")), exps);
                    return;
                }
            }
            continue;
        }
        // blank baseline for a row that did not exist
        let blank = squitterator::Plane::new();
        let blank_row = Row::of(&blank);
        let b: &Row = before.unwrap_or(&blank_row);
        let creating = before.is_none();
        let st = &mut acs[ps.ac];
        // ---- position rule from the slot model
        let mut pos_rule: Option<Result<(f64, f64, bool), ()>> = None; // Ok(lat,lon,either) = decode; Err = unchanged; None = any
        if let Some((parity, cla, clo, la, lo)) = fr.pos {
            let zero = cla == 0 || clo == 0;
            if zero {
                st.slots[parity as usize] = None;
                st.tainted[parity as usize] = true;
                pos_rule = Some(Err(()));
            } else {
                st.slots[parity as usize] = Some((clock, cla, clo, la, lo));
                st.tainted[parity as usize] = false;
                let other = 1 - parity as usize;
                if st.tainted[other] {
                    pos_rule = None;
                } else {
                    match st.slots[other] {
                        None => pos_rule = Some(Err(())),
                        Some((t0, ola, olo, _, _)) => {
                            let gap = clock - t0;
                            let (e, od) = if parity == 0 { ((cla, clo), (ola, olo)) } else { ((ola, olo), (cla, clo)) };
                            let (g, rl) = cpr::global_decode([e.0, od.0], [e.1, od.1], parity);
                            let nb = cpr::nl_boundary_distance(rl[0]) < 1e-6 || cpr::nl_boundary_distance(rl[1]) < 1e-6;
                            // the model clock only knows the simulated silences; real time also passes between the
                            // steps of a long history on a loaded machine. The stamps the code itself wrote (read
                            // back from the row) bound the real distance of the two frames: when they say 9.9 s or
                            // more although the model says less, the case is not judged.
                            let og = (after.cpr_time[0] - after.cpr_time[1]).abs() as f64 / 1e6;
                            if gap >= 10.0 {
                                pos_rule = Some(Err(()));
                            } else if gap + wall + 0.05 >= 10.0 || og >= 9.9 {
                                pos_rule = None;
                                if og >= 9.9 && gap + wall + 0.05 < 10.0 {
                                    rep.inconclusive(format!("pair {:.3} s apart by the model clock but {:.3} s by the row's own stamps (machine load): not judged", gap, og));
                                }
                            } else {
                                match g {
                                    Global::Straddle => pos_rule = if nb { None } else { Some(Err(())) },
                                    Global::Pos(gla, glo) => {
                                        pos_rule = if cpr::haversine_km(gla, glo, la, lo) > 0.02 { None } else { Some(Ok((la, lo, nb))) }
                                    }
                                }
                            }
                        }
                    }
                }
            }
        }
        if fr.taints_cpr {
            st.tainted = [true, true];
        }
        // ---- per-field rules
        let commb_params: &[&str] = &super::c10::PARAMS;
        let (rb, ra) = (Rendered::of(b), Rendered::of(after));
        for name in JUDGED.iter() {
            if creating && (*name == "icao" || *name == "reg") {
                continue;
            }
            if fr.mb.is_some() && commb_params.contains(name) {
                continue; // judged by the Comm-B oracle below
            }
            if (*name == "lat" || *name == "lon" || *name == "distance_from_observer") && fr.pos.is_some() {
                continue; // judged by the position rule
            }
            let rule = fr.rules.iter().find(|(n, _)| n == name).map(|(_, r)| r.clone()).unwrap_or(Rule::Keep);
            // a creating DF20/21 may contribute the address only
            let rule = if creating && fr.mb.is_some() {
                match rule {
                    Rule::Set(mut a) => {
                        a.push("None".into());
                        Rule::Set(a)
                    }
                    x => x,
                }
            } else {
                rule
            };
            let (vb, va) = (rb.get(name).to_string(), ra.get(name).to_string());
            let ok = match &rule {
                Rule::Any => true,
                Rule::Keep => va == vb,
                Rule::SetOrKeep => va == "None" || va == vb,
                Rule::Set(alts) => alts.iter().any(|x| *x == va),
                Rule::SetAltsOrKeep(alts) => va == vb || alts.iter().any(|x| *x == va),
            };
            if !ok && *name == "altitude" && fr.zero_ac12 {
                // same root cause as known finding C05-gillham: an all-zero AC12 (Q=0) is handed to the
                // gray-code routine, which reads address bits 20..32; signature = committed table
                if let Some(g) = GILLHAM.lock().unwrap().as_ref() {
                    let gv = g[(addr & 0x1FFF) as usize];
                    if va == format!("{:?}", gv) {
                        rep.known("C11-gillham-zero-ac12", format!("airborne position {} with all-zero altitude code set altitude {} (previous {})", fr.hex, va, vb));
                        continue;
                    }
                }
            }
            if !ok {
                let (class, want) = match &rule {
                    Rule::Keep => ("foreign-parameter-changed", vb.clone()),
                    Rule::SetOrKeep => ("no-value-frame-set-parameter", format!("None||{}", vb)),
                    Rule::Set(a) => ("latest-value-not-shown", a.join("||")),
                    Rule::SetAltsOrKeep(a) => ("latest-value-not-shown", format!("{}||{}", a.join("||"), vb)),
                    Rule::Any => ("", String::new()),
                };
                fail(
                    rep,
                    class,
                    format!("{} [{}]: {} was {} and is now {}; required {}", fr.name, if creating { "creates the row" } else { "existing row" }, name, vb, va, want),
                    vec![format!("expect {:06X} {} {}", addr, name, want)],
                );
                return;
            }
        }
        // surveillance status representation
        if let Some(ss) = fr.ss {
            let mut rep_tbl = SS_REP.lock().unwrap();
            let c = after.surveillance_status;
            match rep_tbl[ss as usize] {
                None => {
                    if rep_tbl.iter().any(|x| *x == Some(c)) {
                        drop(rep_tbl);
                        fail(rep, "surveillance-status", format!("status value {} shown as {:?}, which already stands for another value", ss, c), vec![]);
                        return;
                    }
                    rep_tbl[ss as usize] = Some(c);
                }
                Some(x) => {
                    if x != c {
                        drop(rep_tbl);
                        fail(rep, "surveillance-status", format!("status value {} shown as {:?}, earlier as {:?}", ss, c, x), vec![format!("expect {:06X} surveillance_status {:?}", addr, x)]);
                        return;
                    }
                }
            }
        }
        if fr.pos.is_some() {
            let unchanged = (b.lat, b.lon, b.distance_from_observer) == (after.lat, after.lon, after.distance_from_observer);
            let good = match pos_rule {
                None => true,
                Some(Err(())) => unchanged,
                Some(Ok((la, lo, either))) => {
                    let d = cpr::haversine_km(la, lo, after.latf(), after.lonf());
                    d < 0.02 || (either && unchanged)
                }
            };
            if !good {
                let exps = match pos_rule {
                    Some(Ok((la, lo, _))) => vec![format!("expect-near {:06X} {} {} 0.02", addr, la, lo)],
                    _ => vec![format!("expect {:06X} lat {:?}", addr, b.latf()), format!("expect {:06X} lon {:?}", addr, b.lonf())],
                };
                fail(rep, "position", format!("position rule {:?} not met: before ({:.6},{:.6}) after ({:.6},{:.6})", pos_rule, b.latf(), b.lonf(), after.latf(), after.lonf()), exps);
                return;
            }
        }
        // ---- Comm-B parameters
        if let Some(mb) = fr.mb {
            if !creating {
                if let Err((class, msg, exps)) = judge_commb(opts, &st.gate, mb, b, after) {
                    fail(rep, &class, msg, exps);
                    return;
                }
            } else {
                // creation: address only, or what the gate would allow – never more than judge_commb allows
                if let Err((class, msg, exps)) = judge_commb(opts, &st.gate, mb, b, after) {
                    if !class.starts_with("commb-not-decoded") {
                        fail(rep, &class, msg, exps);
                        return;
                    }
                }
            }
            st.gate.commb_frame(opts, mb);
        }
        if let Some((is11, ca)) = fr.cap {
            st.gate.capability_frame(is11, ca);
        }
        let _ = st.near;
        if rep.want_sample() && rep.evaluations % 4001 == 11 {
            rep.sample(
                J::obj()
                    .with("options", J::s(opts.describe()))
                    .with("aircraft", J::i(h.addrs.len() as u64))
                    .with("history", J::arr_s(&plan[..=k].iter().filter(|p| !p.dup).map(|p| format!("{:06X}: {} {}", h.addrs[p.ac], p.frame.name, p.frame.hex)).collect::<Vec<_>>()))
                    .with("row_after", J::s(format!("alt {:?} sq {:?} cs {:?} gs {:?} trk {:?} vr {:?} pos ({:.4},{:.4})", after.altitude, after.squawk, after.ais, after.grspeed, after.track, after.vrate, after.latf(), after.lonf()))),
            );
        }
    }
}
