//! CLI-level monitors: the built `squitterator` binary is run as a subprocess; stdout is split
//! into refreshes on the clear-screen sequence.

use super::c14::{cell, check_table, display_subsets, parse_table};
use super::c15::check_order;
use super::c16::{mixed_stream, ref_counts};
use crate::drive::{Opts, Row, Table};
use crate::fgen::*;
use crate::json::J;
use crate::printsub::PRow;
use crate::refmodel::codes::*;
use crate::refmodel::frames::FORMATS;
use crate::report::Report;
use crate::rng::Rng;
use crate::Ctx;
use std::process::{Command, Stdio};
use std::sync::atomic::{AtomicU64, Ordering};
use std::time::{Duration, Instant};

pub const CLEAR: &str = "\x1b[2J\x1b[H\x1b[3J";
static SEQ: AtomicU64 = AtomicU64::new(0);

pub fn scratch(name: &str) -> String {
    let dir = std::env::var("SQMON_SCRATCH").unwrap_or_else(|_| "/dev/shm".to_string());
    format!("{}/sqmon-{}-{}-{}", dir, std::process::id(), SEQ.fetch_add(1, Ordering::Relaxed), name)
}

#[derive(Debug, Clone)]
pub struct CliOut {
    pub code: Option<i32>,
    pub signal: Option<i32>,
    pub timed_out: bool,
    pub stdout: Vec<u8>,
    pub stderr: String,
    pub wall: f64,
}

impl CliOut {
    pub fn clean_exit(&self) -> bool {
        self.code == Some(0) && !self.timed_out && !self.stderr.contains("panicked")
    }
    pub fn describe(&self) -> String {
        format!(
            "exit code {:?}, signal {:?}, timed out {}, stderr {:?}",
            self.code,
            self.signal,
            self.timed_out,
            self.stderr.chars().take(300).collect::<String>()
        )
    }
}

/// run the CLI with the given arguments; stdout/stderr go to scratch files (may be large)
pub fn run_cli(cli: &str, args: &[String], timeout: Duration, prefix: &[String]) -> CliOut {
    use std::os::unix::process::ExitStatusExt;
    let so = scratch("stdout");
    let se = scratch("stderr");
    let t0 = Instant::now();
    let (prog, mut full): (String, Vec<String>) = if prefix.is_empty() { (cli.to_string(), vec![]) } else { (prefix[0].clone(), prefix[1..].iter().cloned().chain(std::iter::once(cli.to_string())).collect()) };
    full.extend(args.iter().cloned());
    let child = Command::new(&prog)
        .args(&full)
        .stdin(Stdio::null())
        .stdout(std::fs::File::create(&so).expect("scratch"))
        .stderr(std::fs::File::create(&se).expect("scratch"))
        .env("RUST_BACKTRACE", "0")
        .spawn();
    let mut out = CliOut { code: None, signal: None, timed_out: false, stdout: vec![], stderr: String::new(), wall: 0.0 };
    match child {
        Err(e) => out.stderr = format!("spawn failed: {}", e),
        Ok(mut ch) => {
            loop {
                match ch.try_wait() {
                    Ok(Some(st)) => {
                        out.code = st.code();
                        out.signal = st.signal();
                        break;
                    }
                    Ok(None) => {
                        if t0.elapsed() > timeout {
                            let _ = ch.kill();
                            let _ = ch.wait();
                            out.timed_out = true;
                            break;
                        }
                        std::thread::sleep(Duration::from_millis(5));
                    }
                    Err(_) => break,
                }
            }
            out.stdout = std::fs::read(&so).unwrap_or_default();
            out.stderr = String::from_utf8_lossy(&std::fs::read(&se).unwrap_or_default()).to_string();
        }
    }
    out.wall = t0.elapsed().as_secs_f64();
    let _ = std::fs::remove_file(&so);
    let _ = std::fs::remove_file(&se);
    out
}

/// refresh blocks of a CLI run (legend excluded): text between clear-screen sequences
pub fn refreshes(stdout: &[u8]) -> Vec<String> {
    let s = String::from_utf8_lossy(stdout).to_string();
    let parts: Vec<&str> = s.split(CLEAR).collect();
    // parts[0] = text before the first clear (normally empty), parts[1] = legend, rest = refreshes
    parts.iter().skip(2).map(|x| x.to_string()).collect()
}

pub fn cli_args(o: &Opts, source: &str) -> Vec<String> {
    let mut a: Vec<String> = vec!["-s".into(), source.into()];
    if o.u {
        a.push("-U".into());
    }
    if o.r {
        a.push("-R".into());
    }
    if o.count {
        a.push("-c".into());
    }
    if let Some(f) = &o.filter {
        for x in f {
            a.push("-f".into());
            a.push(x.to_string());
        }
    }
    a.push(format!("--delete-after={}", o.delete_after));
    a.push(format!("--update={}", o.update));
    for d in &o.display {
        a.push(format!("--display-info={}", d));
    }
    for d in &o.order {
        a.push(format!("--order-by={}", d));
    }
    if let Some(m) = &o.log_messages {
        for x in m {
            a.push("-M".into());
            a.push(x.to_string());
        }
    }
    if let Some(d) = &o.downlink_log {
        a.push("-D".into());
        a.push(d.clone());
    }
    a
}

pub fn prow_of(r: &Row) -> PRow {
    PRow {
        icao: r.icao,
        reg: r.reg.clone(),
        squawk: r.squawk,
        threat: r.threat_encounter,
        category: r.category,
        ais: r.ais.clone(),
        lat: r.latf(),
        lon: r.lonf(),
        dist: r.distf(),
        altitude: r.altitude,
        altitude_source: r.altitude_source,
        altitude_gnss: r.altitude_gnss,
        selected_altitude: r.selected_altitude,
        target_altitude_source: r.target_altitude_source,
        baro: r.barometric_pressure_setting,
        vrate: r.vrate,
        vrate_source: r.vrate_source,
        track: r.track,
        track_source: r.track_source,
        heading: r.heading,
        heading_source: r.heading_source,
        grspeed: r.grspeed,
        tas: r.true_airspeed,
        ias: r.indicated_airspeed,
        mach: r.machf(),
        roll: r.roll_angle,
        tar: r.track_angle_rate,
        temperature: r.temperature.map(f64::from_bits),
        wind: r.wind,
        humidity: r.humidity,
        pressure: r.pressure,
        turbulence: r.turbulence,
        last_df: r.last_df,
        last_tc: r.last_type_code,
        version: r.adsb_version,
        ss: r.surveillance_status,
        pos_age: r.position_timestamp.map(|_| 0),
        trk_age: r.track_timestamp.map(|_| 0),
        hdg_age: r.heading_timestamp.map(|_| 0),
        age: 0,
    }
}

fn write_lines(path: &str, lines: &[Vec<u8>]) {
    let mut b = Vec::new();
    for l in lines {
        b.extend_from_slice(l);
        b.push(b'\n');
    }
    std::fs::write(path, b).expect("scratch write");
}

/// a stream that fills many columns for a handful of aircraft
pub fn rich_stream(r: &mut Rng, nac: usize, extra: usize) -> Vec<Vec<u8>> {
    let mut lines: Vec<Vec<u8>> = Vec::new();
    let addrs: Vec<u32> = (0..nac).map(|_| r.addr()).collect();
    for a in &addrs {
        if r.chance(2, 3) {
            for f in super::common::rich_history(r, *a) {
                lines.push(f.hex().into_bytes());
            }
        } else {
            lines.push(df11(*a, r.below(8) as u32, 0).hex().into_bytes());
        }
    }
    for _ in 0..extra {
        let a = *r.pick(&addrs);
        lines.push(rand_frame(r, a).hex().into_bytes());
    }
    r.shuffle(&mut lines);
    lines
}

// ------------------------------------------------------------------ C14 (b) / C15 CLI

fn block_structure(block: &str, counting: bool) -> Result<(String, Option<String>), String> {
    // returns (table text without counter line, counter line)
    let mut lines: Vec<&str> = block.split('\n').collect();
    if lines.last() == Some(&"") {
        lines.pop();
    }
    if lines.len() < 3 {
        return Err(format!("refresh has only {} lines", lines.len()));
    }
    let sep = lines[1];
    let counter = if counting { lines.pop().map(|s| s.to_string()) } else { None };
    if lines.last() != Some(&sep) {
        return Err(format!("refresh does not end with the separator line{}: last line {:?}", if counting { " before the counter line" } else { "" }, lines.last()));
    }
    Ok((lines.join("\n") + "\n", counter))
}

pub fn refresh_blocks(ctx: &Ctx) -> Option<Report> {
    let cli = ctx.cli.clone()?;
    let mut rep = Report::new("C14", "cli-refresh-blocks");
    let mut r = ctx.rng("c14cli");
    let subsets = display_subsets();
    let runs = ctx.share(ctx.n(32, 1600));
    for k in 0..runs {
        let d = subsets[((k as usize) * ctx.nshards + ctx.shard) % 32].clone();
        let opts = Opts { u: r.chance(1, 2), r: r.chance(1, 2), count: r.chance(1, 2), delete_after: 600, update: -1, display: vec![d.clone()], order: vec![r.pick(&["sA", "a", "", "N", "vd"]).to_string()], ..Default::default() };
        let (na, ne) = (3 + r.below(10) as usize, 20 + r.below(80) as usize);
        let lines = rich_stream(&mut r, na, ne);
        let src = scratch("c14.txt");
        write_lines(&src, &lines);
        squitterator::set_observer_coords_from_str("52.66411442720024, -8.622299905360963");
        let out = run_cli(&cli, &cli_args(&opts, &src), Duration::from_secs(60), &[]);
        let mut t = Table::new();
        let quiet = Opts { display: vec!["Q".into()], ..opts.clone() };
        let rt = t.run_bytes(&quiet, &std::fs::read(&src).unwrap_or_default());
        let _ = std::fs::remove_file(&src);
        rep.eval(Some(format!("{}|{}", opts.describe(), String::from_utf8_lossy(&lines.concat())).as_bytes()));
        rep.class(&format!("-i {:?}{}", d, if opts.count { " -c" } else { "" }));
        if !out.clean_exit() {
            rep.violation("cli-failed", opts.describe(), out.describe(), vec![format!("cli {}", cli_args(&opts, "<stream>").join(" "))]);
            continue;
        }
        if rt.is_err() {
            rep.inconclusive(format!("in-process run failed: {:?}", rt));
            continue;
        }
        let blocks = refreshes(&out.stdout);
        rep.count("refresh_blocks_parsed", blocks.len() as i64);
        if blocks.is_empty() {
            rep.inconclusive("no refresh printed".into());
            continue;
        }
        let mut problems: Vec<(String, String)> = Vec::new();
        let mut prev_rows = 0usize;
        for (bi, b) in blocks.iter().enumerate() {
            match block_structure(b, opts.count) {
                Err(e) => {
                    problems.push(("refresh-structure".into(), format!("refresh {}: {}", bi, e)));
                    break;
                }
                Ok((table, _)) => match parse_table(&table) {
                    Err(e) => {
                        problems.push(("refresh-structure".into(), format!("refresh {}: {}", bi, e)));
                        break;
                    }
                    Ok(pt) => {
                        if pt.rows.len() < prev_rows {
                            problems.push(("refresh-structure".into(), format!("refresh {} lists {} aircraft after {} (nothing expires in this run)", bi, pt.rows.len(), prev_rows)));
                        }
                        prev_rows = pt.rows.len();
                        if bi + 1 == blocks.len() {
                            let rows: Vec<PRow> = t.snapshot().values().map(prow_of).collect();
                            rep.count("rows_compared_with_table", rows.len() as i64);
                            problems.extend(check_table(&table, &d, &rows, false));
                            if let Some(ic) = pt.cols.iter().find(|c| c.0 == "ICAO") {
                                let printed: Vec<u32> = pt.rows.iter().filter_map(|l| u32::from_str_radix(cell(l, ic.1, ic.2).trim(), 16).ok()).collect();
                                for (c, m) in check_order(&printed, &rows, &opts.order) {
                                    problems.push((format!("C15:{}", c), m));
                                }
                            }
                        }
                    }
                },
            }
        }
        if rep.want_sample() {
            rep.sample(
                J::obj()
                    .with("cli_args", J::s(cli_args(&opts, "<stream>").join(" ")))
                    .with("stream_lines", J::i(lines.len() as u64))
                    .with("refreshes", J::i(blocks.len() as u64))
                    .with("last_refresh_head", J::s(blocks.last().unwrap().lines().take(3).collect::<Vec<_>>().join(" / ")))
                    .with("problems", J::i(problems.len() as u64)),
            );
        }
        for (class, msg) in problems.into_iter().take(5) {
            if class.starts_with("C15:") {
                continue; // reported by the C15 CLI monitor
            }
            let script = cli_script(&opts, &lines, &[format!("note {}", msg)]);
            rep.violation(&class, opts.describe(), msg, script);
        }
    }
    Some(rep)
}

pub fn cli_script(opts: &Opts, lines: &[Vec<u8>], extra: &[String]) -> Vec<String> {
    let mut v = vec![format!("cli {}", cli_args(opts, "{STREAM}").join(" ")), crate::replay::seg_line_bytes(lines).replacen("seg ", "stream ", 1)];
    v.extend(extra.iter().cloned());
    v
}

pub fn refresh_order(ctx: &Ctx) -> Option<Report> {
    let cli = ctx.cli.clone()?;
    let mut rep = Report::new("C15", "cli-refresh-order");
    let mut r = ctx.rng("c15cli");
    let runs = ctx.share(ctx.n(48, 1600));
    for _ in 0..runs {
        let order: Vec<String> = match r.below(4) {
            0 => vec![r.pick(&super::c15::KEY_LETTERS).to_string()],
            1 => vec![format!("{}{}", r.pick(&super::c15::KEY_LETTERS), r.pick(&super::c15::KEY_LETTERS))],
            2 => vec!["".into()],
            _ => vec![r.pick(&["sA", "xN", "vq", "dD"]).to_string(), r.pick(&super::c15::KEY_LETTERS).to_string()],
        };
        let opts = Opts { u: r.chance(1, 2), delete_after: 600, update: -1, display: vec!["".into()], order: order.clone(), ..Default::default() };
        let (na, ne) = (4 + r.below(25) as usize, 10 + r.below(60) as usize);
        let lines = rich_stream(&mut r, na, ne);
        let src = scratch("c15.txt");
        write_lines(&src, &lines);
        squitterator::set_observer_coords_from_str("52.66411442720024, -8.622299905360963");
        let out = run_cli(&cli, &cli_args(&opts, &src), Duration::from_secs(60), &[]);
        let mut t = Table::new();
        let rt = t.run_bytes(&Opts { display: vec!["Q".into()], ..opts.clone() }, &std::fs::read(&src).unwrap_or_default());
        let _ = std::fs::remove_file(&src);
        rep.eval(Some(format!("{:?}|{}", order, String::from_utf8_lossy(&lines.concat())).as_bytes()));
        rep.class(&format!("key-{:?}", super::c15::last_key(&order)));
        if !out.clean_exit() {
            rep.violation("cli-failed", opts.describe(), out.describe(), cli_script(&opts, &lines, &[]));
            continue;
        }
        if rt.is_err() {
            rep.inconclusive(format!("in-process run failed: {:?}", rt));
            continue;
        }
        let blocks = refreshes(&out.stdout);
        rep.count("refresh_blocks_parsed", blocks.len() as i64);
        let Some(last) = blocks.last() else {
            rep.inconclusive("no refresh".into());
            continue;
        };
        let rows: Vec<PRow> = t.snapshot().values().map(prow_of).collect();
        // every block: no duplicate ICAO
        for (bi, b) in blocks.iter().enumerate() {
            if let Ok(pt) = parse_table(b) {
                if let Some(ic) = pt.cols.iter().find(|c| c.0 == "ICAO") {
                    let mut printed: Vec<u32> = pt.rows.iter().filter_map(|l| u32::from_str_radix(cell(l, ic.1, ic.2).trim(), 16).ok()).collect();
                    let n = printed.len();
                    printed.sort();
                    printed.dedup();
                    if printed.len() != n {
                        rep.violation("duplicate-row", opts.describe(), format!("refresh {} lists an aircraft twice", bi), cli_script(&opts, &lines, &[]));
                    }
                }
            }
        }
        match parse_table(last) {
            Err(e) => rep.violation("refresh-structure", opts.describe(), e, cli_script(&opts, &lines, &[])),
            Ok(pt) => {
                if let Some(ic) = pt.cols.iter().find(|c| c.0 == "ICAO") {
                    let printed: Vec<u32> = pt.rows.iter().filter_map(|l| u32::from_str_radix(cell(l, ic.1, ic.2).trim(), 16).ok()).collect();
                    rep.count("rows_compared_with_table", printed.len() as i64);
                    for (class, msg) in check_order(&printed, &rows, &order) {
                        rep.violation(&class, format!("-o {:?}", order), msg.clone(), cli_script(&opts, &lines, &[format!("note {}", msg)]));
                    }
                    if rep.want_sample() {
                        rep.sample(J::obj().with("cli_args", J::s(cli_args(&opts, "<stream>").join(" "))).with("aircraft", J::i(rows.len() as u64)).with("printed_order_first", J::arr_s(&printed.iter().take(6).map(|a| format!("{:06X}", a)).collect::<Vec<_>>())));
                    }
                }
            }
        }
    }
    Some(rep)
}

// ------------------------------------------------------------------ C16 (ii) counter line

pub fn counter_lines(ctx: &Ctx) -> Option<Report> {
    let cli = ctx.cli.clone()?;
    let mut rep = Report::new("C16", "cli-counter-line");
    let mut r = ctx.rng("c16cli");
    let runs = ctx.share(ctx.n(320, 10_000));
    for k in 0..runs {
        let len = 5 + r.below(200) as usize;
        // every second stream also carries formats outside the nine (correct length, non-zero address under both the
        // AA and the AP reading): they are accepted frames and are counted under their DF like any other
        let with_other = k % 2 == 1;
        let stream = mixed_stream(&mut r, len, with_other);
        let filter: Option<Vec<u32>> = match k % 3 {
            0 => None,
            1 => Some(vec![*r.pick(&FORMATS)]),
            _ => {
                let mut f: Vec<u32> = FORMATS.iter().copied().filter(|_| r.chance(1, 2)).collect();
                f.push(17);
                if with_other {
                    f.push(*r.pick(&[19u32, 24, 31, 2, 13]));
                }
                Some(f)
            }
        };
        let counting = k % 5 != 4;
        let opts = Opts { u: r.chance(1, 2), filter: filter.clone(), count: counting, delete_after: 600, update: -1, display: vec![r.pick(&["", "aAews", "e"]).to_string()], ..Default::default() };
        let lines: Vec<Vec<u8>> = stream.iter().map(|x| x.0.clone()).collect();
        let src = scratch("c16.txt");
        write_lines(&src, &lines);
        let out = run_cli(&cli, &cli_args(&opts, &src), Duration::from_secs(60), &[]);
        let _ = std::fs::remove_file(&src);
        let want = ref_counts(&stream, &filter);
        let total: u64 = want.values().sum();
        let evkey = format!("{}|{}", opts.describe(), String::from_utf8_lossy(&lines.concat()));
        rep.eval(if total > 0 { Some(evkey.as_bytes()) } else { None });
        rep.class(&format!("{}:{}", if counting { "-c" } else { "no -c" }, match &filter {
            None => "no filter".to_string(),
            Some(f) => format!("filter of {}", f.len()),
        }));
        if !out.clean_exit() {
            rep.violation("cli-failed", opts.describe(), out.describe(), cli_script(&opts, &lines, &[]));
            continue;
        }
        let blocks = refreshes(&out.stdout);
        rep.count("refresh_blocks_parsed", blocks.len() as i64);
        if total == 0 {
            if !blocks.is_empty() {
                rep.violation("refresh-without-accepted-frame", opts.describe(), format!("{} refreshes although no frame was accepted", blocks.len()), cli_script(&opts, &lines, &[]));
            }
            continue;
        }
        if blocks.len() as u64 != total {
            // one refresh per accepted frame with --update=-1 is how this monitor synchronises; not a property
            rep.count("refresh_count_differs_from_accepted_frames", 1);
        }
        let Some(last) = blocks.last() else {
            rep.violation("no-refresh", opts.describe(), format!("{} frames accepted but nothing printed", total), cli_script(&opts, &lines, &[]));
            continue;
        };
        let want_line: String = want.iter().filter(|(_, n)| **n > 0).map(|(d, n)| format!("DF{}:{}", d, n)).collect::<Vec<_>>().join(" ");
        match block_structure(last, counting) {
            Err(e) => rep.violation("refresh-structure", opts.describe(), e, cli_script(&opts, &lines, &[])),
            Ok((_, counter)) => {
                let got = counter.map(|c| c.split_whitespace().collect::<Vec<_>>().join(" "));
                rep.count("counter_lines_compared", counting as i64);
                if rep.want_sample() {
                    rep.sample(J::obj().with("cli_args", J::s(cli_args(&opts, "<stream>").join(" "))).with("stream_lines", J::i(lines.len() as u64)).with("expected_counter_line", J::s(&want_line)).with("observed", J::s(format!("{:?}", got))));
                }
                // the extended-length formats: a decoder may report the 5-bit values 24..31 separately (as the line
                // rule C02 speaks of DF 0..31) or all under DF24 (the standard's two-bit '11' prefix); both are accepted
                let merged_line: String = {
                    let mut m: std::collections::BTreeMap<u32, u64> = std::collections::BTreeMap::new();
                    for (d, n) in want.iter() {
                        *m.entry(if *d >= 24 { 24 } else { *d }).or_insert(0) += *n;
                    }
                    m.iter().filter(|(_, n)| **n > 0).map(|(d, n)| format!("DF{}:{}", d, n)).collect::<Vec<_>>().join(" ")
                };
                if with_other {
                    rep.count("counter_lines_with_formats_outside_the_nine", counting as i64);
                }
                if counting {
                    if got.as_deref() != Some(want_line.as_str()) && got.as_deref() != Some(merged_line.as_str()) {
                        rep.violation(
                            "counter-line",
                            format!("{} want {}", opts.describe(), want_line),
                            format!("last counter line {:?}, expected {:?} (accepted frames with non-zero address per DF, admitted by -f {:?})", got, want_line, filter),
                            cli_script(&opts, &lines, &[format!("expect-last-counter-line {}", want_line)]),
                        );
                    }
                } else if last.lines().any(|l| l.trim_start().starts_with("DF") && l.contains(':')) {
                    rep.violation("counter-line-without-c", opts.describe(), "a DFn:count line is printed without -c".into(), cli_script(&opts, &lines, &[]));
                }
            }
        }
    }
    Some(rep)
}

// ------------------------------------------------------------------ C19 -l

fn mask_ages(block: &str) -> String {
    // drop the LC and PTH cells (wall-clock ages)
    match parse_table(block) {
        Ok(pt) => {
            let mut out = vec![pt.header.clone()];
            for l in &pt.rows {
                let mut cs: Vec<char> = l.chars().collect();
                for (n, s, e) in &pt.cols {
                    if n == "LC" || n == "PTH" {
                        for i in *s..(*e).min(cs.len()) {
                            cs[i] = '#';
                        }
                    }
                }
                out.push(cs.into_iter().collect());
            }
            out.join("\n")
        }
        Err(_) => block.to_string(),
    }
}

pub fn logging_option(ctx: &Ctx) -> Option<Report> {
    let cli = ctx.cli.clone()?;
    let mut rep = Report::new("C19", "cli-error-log-option");
    let mut r = ctx.rng("c19cli");
    let runs = ctx.share(ctx.n(32, 800));
    for _ in 0..runs {
        let opts = Opts { u: r.chance(1, 2), r: r.chance(1, 2), delete_after: 600, update: -1, display: vec!["aAews".into()], order: vec!["".into()], log_messages: if r.chance(1, 2) { Some(vec![17, 4]) } else { None }, ..Default::default() };
        let na = 3 + r.below(8) as usize;
        let mut lines = rich_stream(&mut r, na, 30);
        lines.insert(r.below(lines.len() as u64) as usize, b"not a frame".to_vec());
        let src = scratch("c19.txt");
        write_lines(&src, &lines);
        let log = scratch("c19.log");
        let a = run_cli(&cli, &cli_args(&opts, &src), Duration::from_secs(60), &[]);
        let mut with_l = cli_args(&opts, &src);
        with_l.push("-l".into());
        with_l.push(log.clone());
        let b = run_cli(&cli, &with_l, Duration::from_secs(60), &[]);
        let logged = std::fs::metadata(&log).map(|m| m.len()).unwrap_or(0);
        let _ = std::fs::remove_file(&src);
        let _ = std::fs::remove_file(&log);
        rep.eval(Some(String::from_utf8_lossy(&lines.concat()).as_bytes()));
        rep.count("log_bytes_written", logged as i64);
        if !a.clean_exit() || !b.clean_exit() {
            rep.violation("cli-failed", opts.describe(), format!("without -l: {} | with -l: {}", a.describe(), b.describe()), cli_script(&opts, &lines, &[]));
            continue;
        }
        let (ba, bb) = (refreshes(&a.stdout), refreshes(&b.stdout));
        let (la, lb) = (ba.last().map(|x| mask_ages(x)), bb.last().map(|x| mask_ages(x)));
        if rep.want_sample() {
            rep.sample(J::obj().with("cli_args", J::s(cli_args(&opts, "<stream>").join(" "))).with("refreshes", J::i(ba.len() as u64)).with("log_bytes_with_l", J::i(logged)).with("equal", J::Bool(la == lb)));
        }
        if ba.len() != bb.len() || la != lb {
            rep.violation("error-log-option-changes-output", opts.describe(), format!("final table differs with -l: {:?} vs {:?}", la.map(|x| x.chars().take(300).collect::<String>()), lb.map(|x| x.chars().take(300).collect::<String>())), cli_script(&opts, &lines, &["note run once more with -l <file> and compare the last refresh".into()]));
        }
    }
    Some(rep)
}

// ------------------------------------------------------------------ replay of CLI cases

pub fn replay_cli(script: &str) -> (bool, String) {
    let cli = match std::env::var("SQMON_CLI") {
        Ok(c) => c,
        Err(_) => return (true, "SQMON_CLI not set\n".into()),
    };
    let mut log = String::new();
    let mut stream: Vec<u8> = Vec::new();
    let mut args: Vec<String> = Vec::new();
    let mut expect_counter: Option<String> = None;
    let mut expect_exit0 = false;
    for l in script.lines() {
        if let Some(rest) = l.strip_prefix("stream ") {
            for x in rest.split('|') {
                stream.extend(crate::replay::unesc_line(x));
                stream.push(b'\n');
            }
        } else if let Some(rest) = l.strip_prefix("streamhex ") {
            stream = (0..rest.len() / 2).filter_map(|i| u8::from_str_radix(&rest[2 * i..2 * i + 2], 16).ok()).collect();
        } else if let Some(rest) = l.strip_prefix("cli ") {
            args = rest.split(' ').map(|s| s.to_string()).collect();
        } else if let Some(rest) = l.strip_prefix("expect-last-counter-line ") {
            expect_counter = Some(rest.to_string());
        } else if l.starts_with("expect-exit-0") {
            expect_exit0 = true;
        } else {
            log.push_str(l);
            log.push('\n');
        }
    }
    let src = scratch("replay.txt");
    std::fs::write(&src, &stream).expect("scratch");
    let args: Vec<String> = args.into_iter().map(|a| a.replace("{STREAM}", &src)).collect();
    let out = run_cli(&cli, &args, Duration::from_secs(120), &[]);
    let _ = std::fs::remove_file(&src);
    log.push_str(&format!("ran: {} {}\n-> {}\n", cli, args.join(" "), out.describe()));
    let blocks = refreshes(&out.stdout);
    if let Some(b) = blocks.last() {
        log.push_str("last refresh:\n");
        log.push_str(b);
    }
    let mut ok = true;
    if expect_exit0 && !out.clean_exit() {
        ok = false;
        log.push_str("expect-exit-0 -> FAILS\n");
    }
    if let Some(w) = expect_counter {
        let got = blocks.last().and_then(|b| b.lines().last().map(|x| x.split_whitespace().collect::<Vec<_>>().join(" ")));
        let good = got.as_deref() == Some(w.as_str());
        ok &= good;
        log.push_str(&format!("expect-last-counter-line {} -> {} (observed {:?})\n", w, if good { "holds" } else { "FAILS" }, got));
    }
    (ok, log)
}
