//! CLI-level helpers (subprocess runs of the built squitterator binary).

pub fn replay_cli(_script: &str) -> (bool, String) {
    (true, "cli replay not implemented yet\n".to_string())
}
