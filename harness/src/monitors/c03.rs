//! C03 – every frame is attributed to exactly the address it encodes; rows are isolated.

use super::common::*;
use crate::drive::{Opts, Row, Table};
use crate::fgen::*;
use crate::json::J;
use crate::refmodel::frames::*;
use crate::replay::{opts_line, seg_line};
use crate::report::Report;
use crate::rng::Rng;
use crate::Ctx;
use std::collections::{BTreeMap, BTreeSet, HashSet};

fn frame_for(r: &mut Rng, df: u32, addr: u32, pclass: u32) -> Frame {
    // pclass: 0 zero payload, 1 single-bit payload, 2 random, 3 all ones
    let (ctl, payload): (u32, u64) = match pclass {
        0 => (0, 0),
        1 => {
            let nb = if is_long(df) { 27 + 56 } else { 27 };
            let b = r.below(nb);
            if b < 27 { (1u32 << b, 0) } else { (0, 1u64 << (b - 27)) }
        }
        3 => (0x7FF_FFFF, 0xFF_FFFF_FFFF_FFFF),
        _ => (r.bits(27) as u32, r.bits(56)),
    };
    let ic = if df == 11 && r.chance(1, 2) { r.below(128) as u32 } else { 0 };
    build(df, addr, ctl, payload, ic)
}

fn api_check(rep: &mut Report, f: &Frame, expect: Option<u32>) {
    let hex = f.hex();
    let got = squitterator::get_message(&hex).and_then(|m| {
        let df = squitterator::get_downlink_format(&m)?;
        squitterator::get_icao(&m, df)
    });
    rep.count("api_get_icao_checks", 1);
    if got != expect {
        rep.violation(
            "get-icao",
            format!("df{} {}", f.df(), hex),
            format!("get_icao on {} returned {:?}, reference address {:?}", hex, got, expect),
            vec![format!("note public API: get_message/get_downlink_format/get_icao on {}", hex)],
        );
    }
}

/// Sub-monitor A: attribution of single frames (fresh table, many distinct addresses per segment).
fn attribution(ctx: &Ctx) -> Report {
    let mut rep = Report::new("C03", "attribution");
    let mut r = ctx.rng("c03a");
    let specials = special_addrs();
    let total = ctx.share(ctx.n(200_000, 6_000_000));
    let per_seg = 2000usize;
    let mut done = 0u64;
    let mut segno = 0u64;
    while done < total {
        let opts = Opts::ur(segno % 2 == 1, segno % 4 >= 2);
        segno += 1;
        let mut used: HashSet<u32> = HashSet::new();
        let mut frames: Vec<(Frame, u32)> = Vec::new(); // (frame, expected address; 0 = dropped)
        while frames.len() < per_seg && done + (frames.len() as u64) < total {
            let df = *r.pick(&FORMATS);
            let addr = match r.below(10) {
                0 => 0,
                1 | 2 => *r.pick(&specials),
                _ => r.addr(),
            };
            if addr != 0 && !used.insert(addr) {
                continue;
            }
            let pc = r.below(4) as u32;
            let f = frame_for(&mut r, df, addr, pc);
            debug_assert_eq!(ref_address(&f), Some(addr));
            frames.push((f, addr));
        }
        let lines: Vec<String> = frames.iter().map(|(f, _)| f.hex()).collect();
        let mut t = Table::new();
        let res = t.run(&opts, &lines);
        let expected: BTreeSet<u32> = frames.iter().map(|x| x.1).filter(|a| *a != 0).collect();
        let got: BTreeSet<u32> = t.keys().into_iter().collect();
        for (f, a) in &frames {
            api_check(&mut rep, f, if *a == 0 { None } else { Some(*a) });
            rep.eval(Some(f.hex().as_bytes()));
            rep.class(&format!("df{}{}", f.df(), if *a == 0 { "-zero" } else { "" }));
        }
        if let Err(e) = &res {
            single_out(&mut rep, &opts, &frames, &format!("{:?}", e));
        } else if expected != got || t.key_mismatch().is_some() {
            single_out(&mut rep, &opts, &frames, "key set differs");
        }
        if rep.want_sample() {
            let (f, a) = &frames[0];
            rep.sample(
                J::obj()
                    .with("frame", J::s(f.hex()))
                    .with("df", J::i(f.df()))
                    .with("expected_address", J::s(format!("{:06X}", a)))
                    .with("observed_keys_in_segment", J::i(got.len() as u64))
                    .with("options", J::s(opts.describe())),
            );
        }
        rep.count("segments", 1);
        rep.count("rows_inspected", got.len() as i64);
        done += frames.len() as u64;
    }
    rep
}

/// run every frame alone on a fresh table to find the offending ones
fn single_out(rep: &mut Report, opts: &Opts, frames: &[(Frame, u32)], why: &str) {
    let mut found = 0;
    for (f, a) in frames {
        let mut t = Table::new();
        let hex = f.hex();
        let res = t.run(opts, &[hex.clone()]);
        let keys = t.keys();
        let want: Vec<u32> = if *a == 0 { vec![] } else { vec![*a] };
        let bad_icao = t.key_mismatch();
        if res.is_err() || keys != want || bad_icao.is_some() {
            found += 1;
            let class = if res.is_err() {
                "panic"
            } else if *a == 0 {
                "zero-address-created-row"
            } else {
                "wrong-attribution"
            };
            let mut script = vec![opts_line(opts, None), seg_line(&[hex.clone()]), "expect-nopanic".to_string()];
            if *a == 0 {
                for k in &keys {
                    script.push(format!("expect-absent {:06X}", k));
                }
            } else {
                script.push(format!("expect-present {:06X}", a));
                for k in keys.iter().filter(|k| **k != *a) {
                    script.push(format!("expect-absent {:06X}", k));
                }
                script.push(format!("expect {:06X} icao {:06X}", a, a));
            }
            rep.violation(
                class,
                format!("df{} addr={:06X} {}", f.df(), a, hex),
                format!(
                    "frame {} (DF{}) encodes address {:06X}; table keys afterwards {:?}; run result {:?}; row.icao mismatch {:?}",
                    hex,
                    f.df(),
                    a,
                    keys.iter().map(|k| format!("{:06X}", k)).collect::<Vec<_>>(),
                    res.as_ref().err(),
                    bad_icao
                ),
                script,
            );
            if let Err(crate::drive::RunErr::Panic(p)) = &res {
                rep.panic(&crate::batch::panic_loc(p));
            }
        }
    }
    if found == 0 {
        rep.inconclusive(format!("segment-level anomaly ({}) not reproduced by single-frame runs", why));
    }
}

/// Sub-monitor B: interleaved histories over a few aircraft; rows of aircraft that received
/// nothing in a segment must stay bit-identical (time stamps included).
fn isolation(ctx: &Ctx) -> Report {
    let mut rep = Report::new("C03", "isolation");
    let mut r = ctx.rng("c03b");
    let histories = ctx.share(ctx.n(1500, 40_000));
    for h in 0..histories {
        let opts = Opts::ur(h % 2 == 1, h % 4 >= 2);
        let k = 2 + r.below(7) as usize;
        let mut addrs: Vec<u32> = Vec::new();
        while addrs.len() < k {
            let a = if r.chance(1, 5) { *r.pick(&special_addrs()) } else { r.addr() };
            if !addrs.contains(&a) {
                addrs.push(a);
            }
        }
        let mut t = Table::new();
        let mut script = vec![opts_line(&opts, None)];
        // initial rich state for about half of the aircraft
        let mut init: Vec<String> = Vec::new();
        let mut known: BTreeSet<u32> = BTreeSet::new();
        for a in addrs.iter().take(k / 2 + 1) {
            init.extend(hexes(&rich_history(&mut r, *a)));
            known.insert(*a);
        }
        r.shuffle(&mut init);
        script.push(seg_line(&init));
        if let Err(e) = t.run(&opts, &init) {
            rep.violation("panic", format!("init {:?}", e), format!("{:?}", e), script.clone());
            continue;
        }
        let steps = 4 + r.below(12);
        for _ in 0..steps {
            // subset S of aircraft that talk in this segment
            let ns = 1 + r.below((k as u64 / 2).max(1)) as usize;
            let mut s: Vec<u32> = Vec::new();
            while s.len() < ns {
                let a = *r.pick(&addrs);
                if !s.contains(&a) {
                    s.push(a);
                }
            }
            let nf = 1 + r.below(12);
            let mut lines = Vec::new();
            for _ in 0..nf {
                let a = if r.chance(1, 8) { 0 } else { *r.pick(&s) };
                lines.push(rand_frame(&mut r, a).hex());
            }
            let before: BTreeMap<u32, Row> = t.snapshot();
            script.push(seg_line(&lines));
            let res = t.run(&opts, &lines);
            let after = t.snapshot();
            for a in &s {
                known.insert(*a);
            }
            let mut bad: Vec<String> = Vec::new();
            let mut exp_lines: Vec<String> = Vec::new();
            if let Err(e) = &res {
                bad.push(format!("run failed: {:?}", e));
                exp_lines.push("expect-nopanic".into());
            }
            // key set: previous ∪ S-members that were actually addressed, nothing else
            for key in after.keys() {
                if !before.contains_key(key) && !s.contains(key) {
                    bad.push(format!("unexpected new row {:06X}", key));
                    exp_lines.push(format!("expect-absent {:06X}", key));
                }
            }
            for (key, rb) in &before {
                match after.get(key) {
                    None => {
                        bad.push(format!("row {:06X} disappeared", key));
                        exp_lines.push(format!("expect-present {:06X}", key));
                    }
                    Some(ra) => {
                        if !s.contains(key) && ra != rb {
                            bad.push(format!("row {:06X} of a silent aircraft changed: {}", key, rb.diff(ra).join("; ")));
                            for n in rb.diff_names(ra) {
                                let v = rb.fields().into_iter().find(|(k, _)| *k == n).unwrap().1;
                                exp_lines.push(format!("expect {:06X} {} {}", key, n, v));
                            }
                        }
                        if ra.icao != *key {
                            bad.push(format!("row {:06X} has icao field {:06X}", key, ra.icao));
                            exp_lines.push(format!("expect {:06X} icao {:06X}", key, key));
                        }
                    }
                }
            }
            let silent = before.keys().filter(|k| !s.contains(k)).count();
            rep.eval(Some(lines.join(",").as_bytes()));
            rep.count("silent_rows_compared", silent as i64);
            rep.count("frames", lines.len() as i64);
            rep.count("segments", 1);
            if !bad.is_empty() {
                let mut sc = script.clone();
                sc.extend(exp_lines);
                rep.violation(
                    if res.is_err() { "panic" } else { "foreign-row-changed" },
                    format!("segment {}", lines.join(",")),
                    bad.join(" | "),
                    sc,
                );
                break;
            }
            if rep.want_sample() {
                rep.sample(
                    J::obj()
                        .with("aircraft", J::arr_s(&addrs.iter().map(|a| format!("{:06X}", a)).collect::<Vec<_>>()))
                        .with("talking", J::arr_s(&s.iter().map(|a| format!("{:06X}", a)).collect::<Vec<_>>()))
                        .with("segment", J::arr_s(&lines))
                        .with("silent_rows_bit_identical", J::i(silent as u64))
                        .with("options", J::s(opts.describe())),
                );
            }
        }
    }
    rep
}

pub fn run(ctx: &Ctx) -> Vec<Report> {
    vec![attribution(ctx), isolation(ctx)]
}
