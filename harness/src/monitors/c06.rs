//! C06 – squawk equals the octal identity code of the latest DF5/DF21 reply; no other
//! downlink format changes it.

use crate::batch::{Case, CaseOut, panic_loc, run_batch};
use crate::drive::Opts;
use crate::fgen::*;
use crate::json::J;
use crate::refmodel::codes::*;
use crate::refmodel::frames::{FORMATS, Frame};
use crate::replay::{opts_line, seg_line};
use crate::report::Report;
use crate::Ctx;
use std::collections::HashSet;

pub const PREV_SQUAWK: u32 = 9999; // not an octal code

pub fn run(ctx: &Ctx) -> Vec<Report> {
    vec![identity(ctx), other_formats(ctx)]
}

fn identity(ctx: &Ctx) -> Report {
    let mut rep = Report::new("C06", "identity-code");
    let mut r = ctx.rng("c06");
    let fillers = ctx.n(2, 24);
    let mut case_no = 0u64;
    for _ in 0..fillers {
        for (u, rr) in [(false, false), (true, false), (false, true), (true, true)] {
            let opts = Opts::ur(u, rr);
            let mut cases: Vec<Case> = Vec::new();
            let mut meta: Vec<(u32, u32, bool, Frame)> = Vec::new(); // df, id13, update
            let mut used = HashSet::new();
            for update in [false, true] {
                for df in [5u32, 21] {
                    if rr && df == 5 {
                        continue;
                    }
                    for id in 0..8192u32 {
                        case_no += 1;
                        if !ctx.mine(case_no) {
                            continue;
                        }
                        let addr = loop {
                            let a = r.addr();
                            if used.insert(a) {
                                break a;
                            }
                        };
                        let f = if df == 5 { df5(addr, r.bits(14) as u32, id) } else { df21(addr, r.bits(14) as u32, id, r.bits(56)) };
                        let prefix = if update { vec![df11(addr, r.below(8) as u32, 0).hex()] } else { vec![] };
                        cases.push(Case { addr, prefix, test: vec![f.hex()] });
                        meta.push((df, id, update, f));
                    }
                }
            }
            let upd: Vec<bool> = meta.iter().map(|m| m.2).collect();
            let preset = move |i: usize, p: &mut squitterator::Plane| {
                if upd[i] {
                    p.squawk = Some(PREV_SQUAWK);
                }
            };
            let mut stats = (0, 0);
            let outs = run_batch(&opts, &cases, Some(&preset), &mut stats);
            rep.count("segments", stats.0 as i64);
            rep.count("lines_fed", stats.1 as i64);
            for (i, o) in outs.iter().enumerate() {
                let (df, id, update, f) = &meta[i];
                let want = ref_squawk(*id);
                let ctxname = format!("df{}:{}:{}", df, if *update { "update" } else { "create" }, opts.describe());
                let key = format!("{}:{}", ctxname, f.hex());
                rep.eval(Some(key.as_bytes()));
                rep.class(&ctxname);
                let script = |alts: String| {
                    let mut v = vec![opts_line(&opts, None)];
                    if !cases[i].prefix.is_empty() {
                        v.push(seg_line(&cases[i].prefix));
                        v.push(format!("note the monitor then plants squawk {} into the row", PREV_SQUAWK));
                    }
                    v.push(seg_line(&cases[i].test));
                    v.push("expect-nopanic".into());
                    v.push(format!("expect {:06X} squawk {}", cases[i].addr, alts));
                    v
                };
                if let Some(p) = &o.panic {
                    rep.panic(&panic_loc(p));
                    rep.violation("panic", key, format!("{} -> {}", f.hex(), p), script("(any)".into()));
                    continue;
                }
                let got = o.after.as_ref().and_then(|r| r.squawk);
                let creating_commb = *df == 21 && !*update;
                let ok = got == Some(want) || (creating_commb && got.is_none());
                if rep.want_sample() && id % 1371 == 5 {
                    rep.sample(
                        J::obj()
                            .with("frame", J::s(f.hex()))
                            .with("context", J::s(&ctxname))
                            .with("id13", J::s(format!("{:013b}", id)))
                            .with("expected_squawk", J::s(format!("{:04}", want)))
                            .with("observed", J::s(format!("{:?}", got))),
                    );
                }
                if !ok {
                    rep.violation(
                        "squawk",
                        key,
                        format!("{} [{}]: identity field {:013b} is squawk {:04}, observed {:?}", f.hex(), ctxname, id, want, got),
                        script(format!("Some({})", want)),
                    );
                }
            }
        }
    }
    rep.exhaustive.push("all 8192 identity codes x DF5/DF21 x create/update x default/-U (DF21 also -R)".into());
    rep
}

/// A row with a known squawk receives frames of every other format: squawk must not change.
fn other_formats(ctx: &Ctx) -> Report {
    let mut rep = Report::new("C06", "other-formats-keep-squawk");
    let mut r = ctx.rng("c06b");
    let n = ctx.share(ctx.n(40_000, 1_500_000));
    let mut done = 0;
    while done < n {
        for (u, rr) in [(false, false), (true, false), (false, true), (true, true)] {
            let opts = Opts::ur(u, rr);
            let mut cases = Vec::new();
            let mut meta = Vec::new();
            let mut used = HashSet::new();
            for _ in 0..3000.min(n - done) {
                let addr = loop {
                    let a = r.addr();
                    if used.insert(a) {
                        break a;
                    }
                };
                let sq = r.bits(13) as u32;
                let df = loop {
                    let d = *r.pick(&FORMATS);
                    if d != 5 && d != 21 {
                        break d;
                    }
                };
                let f = if df == 17 {
                    // every type code
                    df17(addr, r.below(8) as u32, me_raw(r.below(32) as u32, r.bits(51)))
                } else {
                    rand_frame_df(&mut r, addr, df)
                };
                cases.push(Case {
                    addr,
                    prefix: vec![df11(addr, r.below(8) as u32, 0).hex(), df5(addr, r.bits(14) as u32, sq).hex()],
                    test: vec![f.hex()],
                });
                meta.push((sq, f));
                done += 1;
            }
            let mut stats = (0, 0);
            let outs: Vec<CaseOut> = run_batch(&opts, &cases, None, &mut stats);
            rep.count("segments", stats.0 as i64);
            rep.count("lines_fed", stats.1 as i64);
            for (i, o) in outs.iter().enumerate() {
                let (sq, f) = &meta[i];
                let key = format!("{}:{}", opts.describe(), f.hex());
                rep.eval(Some(key.as_bytes()));
                rep.class(&format!("df{}:{}", f.df(), opts.describe()));
                let script = || {
                    vec![
                        opts_line(&opts, None),
                        seg_line(&cases[i].prefix),
                        seg_line(&cases[i].test),
                        "expect-nopanic".into(),
                        format!("expect {:06X} squawk Some({})", cases[i].addr, ref_squawk(*sq)),
                    ]
                };
                if let Some(p) = &o.panic {
                    rep.panic(&panic_loc(p));
                    rep.violation("panic", key, format!("{} -> {}", f.hex(), p), script());
                    continue;
                }
                let before = o.before.as_ref().and_then(|r| r.squawk);
                let after = o.after.as_ref().and_then(|r| r.squawk);
                if before != Some(ref_squawk(*sq)) {
                    rep.inconclusive(format!("prefix did not establish squawk {:04} (got {:?}) – judged by identity-code monitor", ref_squawk(*sq), before));
                    continue;
                }
                if after != before {
                    rep.violation(
                        "squawk-changed-by-other-format",
                        key,
                        format!("DF{} frame {} changed squawk {:?} -> {:?}", f.df(), f.hex(), before, after),
                        script(),
                    );
                }
                if rep.want_sample() && i == 7 {
                    rep.sample(J::obj().with("row_squawk", J::s(format!("{:?}", before))).with("frame", J::s(f.hex())).with("df", J::i(f.df())).with("squawk_after", J::s(format!("{:?}", after))));
                }
            }
            if done >= n {
                break;
            }
        }
    }
    rep
}
