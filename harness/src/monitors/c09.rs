//! C09 – ground speed, track and vertical rate follow the TC19 velocity encoding,
//! identically on first and later frames and with/without -U.

use crate::batch::{Case, panic_loc, run_batch};
use crate::drive::Opts;
use crate::fgen::*;
use crate::json::J;
use crate::refmodel::frames::Frame;
use crate::refmodel::velocity::*;
use crate::replay::{opts_line, seg_line};
use crate::report::Report;
use crate::Ctx;
use std::collections::HashSet;

const PREV_GS: u32 = 9999;
const PREV_TRK: u32 = 999;
const PREV_VR: i32 = -77_777;

fn comp_values(ctx: &Ctx, full: bool) -> Vec<u32> {
    if full {
        (0..1024).collect()
    } else {
        let mut v = vec![0u32, 1, 2, 3, 10, 100, 500, 511, 512, 513, 1000, 1021, 1022, 1023];
        let mut r = crate::rng::Rng::derive(ctx.seed, "c09-comp", 0);
        v.push(4 + r.below(1000) as u32);
        v.push(4 + r.below(1000) as u32);
        v
    }
}

pub fn run(ctx: &Ctx) -> Vec<Report> {
    let mut rep = Report::new("C09", "velocity");
    let mut r = ctx.rng("c09");
    let thorough = !ctx.quick();
    let few = comp_values(ctx, false);
    let all: Vec<u32> = (0..1024).collect();
    // enumerate velocity specs lazily through an index space to keep memory flat
    let mut specs: Vec<Vel> = Vec::new();
    let mut push_grid = |specs: &mut Vec<Vel>, ews: &[u32], nss: &[u32], r: &mut crate::rng::Rng| {
        for subtype in [1u32, 2] {
            for ew_dir in 0..2 {
                for ns_dir in 0..2 {
                    for &ew in ews {
                        for &ns in nss {
                            specs.push(Vel {
                                subtype,
                                ew_dir,
                                ew,
                                ns_dir,
                                ns,
                                vr_src: r.bits(1) as u32,
                                vr_sign: r.bits(1) as u32,
                                vr: r.below(512) as u32,
                                misc: r.bits(5) as u32,
                                diff_sign: r.bits(1) as u32,
                                diff: r.bits(7) as u32,
                            });
                        }
                    }
                }
            }
        }
    };
    let contexts: Vec<(bool, bool)> = vec![(false, false), (false, true), (true, false), (true, true)]; // (update, U)
    let mut case_no = 0u64;
    let mut run_specs = |specs: &mut Vec<Vel>, rep: &mut Report, r: &mut crate::rng::Rng, case_no: &mut u64| {
        for (update, u) in contexts.iter() {
            let opts = Opts::ur(*u, false);
            let mut cases = Vec::new();
            let mut meta: Vec<(Vel, Frame)> = Vec::new();
            let mut used = HashSet::new();
            let flush = |cases: &mut Vec<Case>, meta: &mut Vec<(Vel, Frame)>, rep: &mut Report, used: &mut HashSet<u32>| {
                if cases.is_empty() {
                    return;
                }
                let upd = *update;
                let preset = move |_i: usize, p: &mut squitterator::Plane| {
                    if upd {
                        p.grspeed = Some(PREV_GS);
                        p.track = Some(PREV_TRK);
                        p.vrate = Some(PREV_VR);
                    }
                };
                let mut stats = (0, 0);
                let outs = run_batch(&opts, cases, Some(&preset), &mut stats);
                rep.count("segments", stats.0 as i64);
                rep.count("lines_fed", stats.1 as i64);
                for (i, o) in outs.iter().enumerate() {
                    judge(rep, &opts, *update, &meta[i].0, &meta[i].1, &cases[i], o);
                }
                cases.clear();
                meta.clear();
                used.clear();
            };
            for v in specs.iter() {
                *case_no += 1;
                if !ctx.mine(*case_no / 64) {
                    continue;
                }
                let addr = loop {
                    let a = r.addr();
                    if used.insert(a) {
                        break a;
                    }
                };
                let f = df17(addr, r.below(8) as u32, v.me());
                let prefix = if *update { vec![df11(addr, r.below(8) as u32, 0).hex()] } else { vec![] };
                cases.push(Case { addr, prefix, test: vec![f.hex()] });
                meta.push((*v, f));
                if cases.len() >= 4096 {
                    flush(&mut cases, &mut meta, rep, &mut used);
                }
            }
            flush(&mut cases, &mut meta, rep, &mut used);
        }
        specs.clear();
    };
    if thorough {
        // full 2x1024x2x1024 grid x subtypes, processed in slabs of 16 east/west values
        for slab in 0..64u32 {
            let ews: Vec<u32> = (slab * 16..slab * 16 + 16).collect();
            push_grid(&mut specs, &ews, &all, &mut r);
            run_specs(&mut specs, &mut rep, &mut r, &mut case_no);
        }
        rep.exhaustive.push("full grid 2x1024 x 2x1024 east/north sign+magnitude x subtype 1/2 x create/update x default/-U".into());
    } else {
        push_grid(&mut specs, &all, &few, &mut r);
        push_grid(&mut specs, &few, &all, &mut r);
        run_specs(&mut specs, &mut rep, &mut r, &mut case_no);
        rep.exhaustive.push("every value of one velocity component against 16 values of the other (incl. 0,1,2,1023), all sign combinations, subtype 1/2, create/update, default/-U".into());
    }
    // all vertical-rate codes
    for subtype in [1u32, 2] {
        for vr_sign in 0..2 {
            for vr in 0..512u32 {
                for vr_src in 0..2 {
                    specs.push(Vel {
                        subtype,
                        ew_dir: r.bits(1) as u32,
                        ew: 1 + r.below(1023) as u32,
                        ns_dir: r.bits(1) as u32,
                        ns: 1 + r.below(1023) as u32,
                        vr_src,
                        vr_sign,
                        vr,
                        misc: r.bits(5) as u32,
                        diff_sign: r.bits(1) as u32,
                        diff: r.bits(7) as u32,
                    });
                }
            }
        }
    }
    run_specs(&mut specs, &mut rep, &mut r, &mut case_no);
    rep.exhaustive.push("all 2x512 vertical-rate codes x subtype 1/2 x create/update x default/-U".into());
    vec![rep]
}

fn judge(rep: &mut Report, opts: &Opts, update: bool, v: &Vel, f: &Frame, case: &Case, o: &crate::batch::CaseOut) {
    let e = ref_velocity(v);
    let ctxname = format!("st{}:{}:{}", v.subtype, if update { "update" } else { "create" }, opts.describe());
    let key = format!("{}:{}", ctxname, f.hex());
    rep.eval(Some(key.as_bytes()));
    rep.class(&format!(
        "{}:{}{}{}",
        ctxname,
        if v.ew == 0 || v.ns == 0 { "comp0" } else { "comp" },
        if v.vr == 0 { ":vr0" } else { ":vr" },
        if v.ew_dir == 1 { ":W" } else { ":E" }
    ));
    let alt = |set: &Option<Vec<u32>>, prev: u32| -> String {
        match set {
            Some(s) => s.iter().map(|x| format!("Some({})", x)).collect::<Vec<_>>().join("||"),
            None => {
                if update {
                    format!("None||Some({})", prev)
                } else {
                    "None".into()
                }
            }
        }
    };
    let script = || {
        let mut s = vec![opts_line(opts, None)];
        if !case.prefix.is_empty() {
            s.push(seg_line(&case.prefix));
            s.push(format!("note the monitor then plants grspeed {} track {} vrate {} into the row", PREV_GS, PREV_TRK, PREV_VR));
        }
        s.push(seg_line(&case.test));
        s.push("expect-nopanic".into());
        s.push(format!("expect {:06X} grspeed {}", case.addr, alt(&e.gs, PREV_GS)));
        s.push(format!("expect {:06X} track {}", case.addr, alt(&e.track, PREV_TRK)));
        s.push(format!(
            "expect {:06X} vrate {}",
            case.addr,
            match e.vrate {
                Some(x) => format!("Some({})", x),
                None =>
                    if update {
                        format!("None||Some({})", PREV_VR)
                    } else {
                        "None".into()
                    },
            }
        ));
        s
    };
    if let Some(p) = &o.panic {
        rep.panic(&panic_loc(p));
        rep.violation("panic", key, format!("{} -> {}", f.hex(), p), script());
        return;
    }
    let Some(a) = &o.after else {
        rep.violation("row-missing", key, format!("{}: row absent", f.hex()), script());
        return;
    };
    let chk_u = |got: Option<u32>, set: &Option<Vec<u32>>, prev: u32| -> bool {
        match set {
            Some(s) => got.is_some_and(|g| s.contains(&g)),
            None => got.is_none() || (update && got == Some(prev)),
        }
    };
    let gs_ok = chk_u(a.grspeed, &e.gs, PREV_GS);
    let trk_ok = chk_u(a.track, &e.track, PREV_TRK);
    let vr_ok = match e.vrate {
        Some(x) => a.vrate == Some(x),
        None => a.vrate.is_none() || (update && a.vrate == Some(PREV_VR)),
    };
    if rep.want_sample() && rep.evaluations % 4099 == 7 {
        rep.sample(
            J::obj()
                .with("frame", J::s(f.hex()))
                .with("context", J::s(&ctxname))
                .with("fields", J::s(format!("ew_dir={} ew={} ns_dir={} ns={} vr_sign={} vr={}", v.ew_dir, v.ew, v.ns_dir, v.ns, v.vr_sign, v.vr)))
                .with("expected", J::s(format!("gs {:?} track {:?} vrate {:?}", e.gs, e.track, e.vrate)))
                .with("observed", J::s(format!("gs {:?} track {:?} vrate {:?}", a.grspeed, a.track, a.vrate))),
        );
    }
    if gs_ok && trk_ok && vr_ok {
        return;
    }
    let class = if !vr_ok {
        if v.vr == 0 { "vrate-field0" } else { "vrate" }
    } else if e.gs.is_none() {
        "component-field0"
    } else if update && !opts.u && a.grspeed == Some(PREV_GS) && a.track == Some(PREV_TRK) {
        "velocity-not-applied-on-update"
    } else if !gs_ok {
        "groundspeed"
    } else {
        "track"
    };
    rep.violation(
        class,
        key,
        format!(
            "{} [{}]: fields ew_dir={} ew={} ns_dir={} ns={} vr_sign={} vr={} require gs {:?} track {:?} vrate {:?}; observed gs {:?} track {:?} vrate {:?}",
            f.hex(), ctxname, v.ew_dir, v.ew, v.ns_dir, v.ns, v.vr_sign, v.vr, e.gs, e.track, e.vrate, a.grspeed, a.track, a.vrate
        ),
        script(),
    );
}
