//! Helpers shared by monitors.

use crate::fgen::*;
use crate::refmodel::codes::*;
use crate::refmodel::commb;
use crate::refmodel::cpr;
use crate::refmodel::frames::Frame;
use crate::rng::Rng;

/// A history that fills most displayed parameters of `addr` with valid values:
/// DF11 (CA>=4), ident, a valid even/odd position pair, velocity, DF4, DF5, BDS 1,7 + 4,0/5,0/6,0.
pub fn rich_history(r: &mut Rng, addr: u32) -> Vec<Frame> {
    let mut v = Vec::new();
    v.push(df11(addr, 4 + r.below(4) as u32, 0));
    v.push(df17(addr, 5, me_ident(4, 1 + r.below(5) as u32, enc_callsign(&rand_callsign_codes(r)))));
    let lat = r.f64() * 120.0 - 60.0;
    let lon = r.f64() * 300.0 - 150.0;
    let alt = 1000 + 25 * r.below(1500) as i32;
    let (la0, lo0) = cpr::encode(lat, lon, 0);
    let (la1, lo1) = cpr::encode(lat, lon, 1);
    v.push(df17(addr, 5, me_airpos(11, 0, 0, enc_ac12_q1(alt), 0, 0, la0.max(1), lo0.max(1))));
    v.push(df17(addr, 5, me_airpos(11, 0, 0, enc_ac12_q1(alt), 0, 1, la1.max(1), lo1.max(1))));
    v.push(df17(addr, 5, rand_vel(r, 1).me()));
    v.push(df4(addr, r.bits(14) as u32, enc_ac13_q1(alt)));
    v.push(df5(addr, r.bits(14) as u32, r.bits(13) as u32));
    v.push(df20(addr, 0, enc_ac13_q1(alt), commb::enc_17(true, true, true, r.bits(24) as u32)));
    v.push(df20(
        addr,
        0,
        enc_ac13_q1(alt),
        commb::enc_40(1 + r.below(4000) as u32, 1 + r.below(4000) as u32, 1 + r.below(4000) as u32, 1 + r.below(7) as u32, 1 + r.below(3) as u32, [true; 5]),
    ));
    v.push(df21(
        addr,
        0,
        r.bits(13) as u32,
        commb::enc_50((0, 1 + r.below(100) as u32), (0, 1 + r.below(1000) as u32), 100 + r.below(100) as u32, (0, 1 + r.below(100) as u32), 100 + r.below(100) as u32, [true; 5]),
    ));
    v
}

pub fn hexes(fs: &[Frame]) -> Vec<String> {
    fs.iter().map(|f| f.hex()).collect()
}

/// interesting 24-bit addresses: single-bit, all-ones, allocation block edges
pub fn special_addrs() -> Vec<u32> {
    let mut v: Vec<u32> = (0..24).map(|i| 1u32 << i).collect();
    v.push(0xFF_FFFF);
    v.push(0xFF_FFFE);
    v.push(0x7F_FFFF);
    for &(s, e, _) in crate::refmodel::country::BLOCKS {
        if s != 0 {
            v.push(s);
        }
        v.push(e);
    }
    v.sort();
    v.dedup();
    v
}
