//! C14 – printed rows render the table faithfully (placeholder; built later).
use crate::report::Report;
use crate::Ctx;

pub fn wake_letters(_ctx: &Ctx) -> Option<Report> {
    None
}
