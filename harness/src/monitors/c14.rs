//! C14 – printed rows render the table faithfully under their column headers.
//! (a) print sub-process on directly constructed rows x all 32 -i subsets
//! (b) CLI refresh blocks (see cli.rs)

use crate::json::J;
use crate::printsub::*;
use crate::refmodel::codes::ref_wake;
use crate::report::Report;
use crate::rng::Rng;
use crate::Ctx;

#[derive(Clone, Debug)]
pub struct ParsedTable {
    pub header: String,
    pub sep: String,
    pub rows: Vec<String>,
    /// (name, start, end) in characters, taken from the separator's dash runs and the header text
    pub cols: Vec<(String, usize, usize)>,
}

pub fn parse_table(text: &str) -> Result<ParsedTable, String> {
    let lines: Vec<&str> = text.split('\n').collect();
    let lines: Vec<&str> = if lines.last() == Some(&"") { lines[..lines.len() - 1].to_vec() } else { lines };
    if lines.len() < 3 {
        return Err(format!("a refresh needs header, separator, closing separator; got {} lines", lines.len()));
    }
    let header = lines[0].to_string();
    let sep = lines[1].to_string();
    let is_sep = |l: &str| !l.is_empty() && l.chars().all(|c| c == '-' || c == ' ') && l.contains('-');
    if !is_sep(&sep) {
        return Err(format!("second line is not a separator: {:?}", sep));
    }
    let last_sep = lines.iter().rposition(|l| *l == sep).unwrap_or(0);
    if last_sep < 2 && lines.len() > 2 && last_sep != lines.len() - 1 {
        return Err("closing separator missing".into());
    }
    if last_sep == 1 {
        return Err("closing separator missing".into());
    }
    let rows: Vec<String> = lines[2..last_sep].iter().map(|s| s.to_string()).collect();
    // columns from dash runs
    let sc: Vec<char> = sep.chars().collect();
    let hc: Vec<char> = header.chars().collect();
    let mut cols = Vec::new();
    let mut i = 0;
    while i < sc.len() {
        if sc[i] == '-' {
            let st = i;
            while i < sc.len() && sc[i] == '-' {
                i += 1;
            }
            let name: String = hc.iter().skip(st).take(i - st).collect::<String>().trim().to_string();
            cols.push((name, st, i));
        } else {
            i += 1;
        }
    }
    Ok(ParsedTable { header, sep, rows, cols })
}

pub fn cell(row: &str, st: usize, en: usize) -> String {
    row.chars().skip(st).take(en - st).collect()
}

#[derive(Clone, Copy, PartialEq, Debug)]
pub enum Align {
    Left,
    Right,
    /// shape only (ages)
    Shape,
}

/// expected text of a column for a row; None = column not known to the reference
pub fn ref_cell(name: &str, r: &PRow) -> Option<(String, Align)> {
    let pos_known = r.lat != 0.0 && r.lon != 0.0;
    let num = |x: Option<String>| x.unwrap_or_default();
    Some(match name {
        "ICAO" => (format!("{:06X}", r.icao), Align::Left),
        "RG" => (r.reg.clone(), Align::Left),
        "SQWK" => (num(r.squawk.map(|s| format!("{:04}", s))), Align::Right),
        "W" => (ref_wake(r.category.0, r.category.1).map(|c| c.to_string()).unwrap_or_default(), Align::Left),
        "CALLSIGN" => (r.ais.clone().unwrap_or_default(), Align::Left),
        "LATITUDE" => (if pos_known { format!("{:.5}", r.lat) } else { String::new() }, Align::Right),
        "LONGITUDE" => (if pos_known { format!("{:.5}", r.lon) } else { String::new() }, Align::Right),
        "DIST" => (num(r.dist.map(|d| format!("{:.1}", d))), Align::Right),
        "ALT B" => (num(r.altitude.map(|a| a.to_string())), Align::Right),
        "ALT G" => (num(r.altitude_gnss.map(|a| a.to_string())), Align::Right),
        "ALT S" => (num(r.selected_altitude.map(|a| a.to_string())), Align::Right),
        "BARO" => (num(r.baro.map(|a| a.to_string())), Align::Right),
        "VRATE" => (num(r.vrate.map(|a| a.to_string())), Align::Right),
        "TRK" => (num(r.track.map(|a| a.to_string())), Align::Right),
        "HDG" => (num(r.heading.map(|a| a.to_string())), Align::Right),
        "GSP" => (num(r.grspeed.map(|a| a.to_string())), Align::Right),
        "TAS" => (num(r.tas.map(|a| a.to_string())), Align::Right),
        "IAS" => (num(r.ias.map(|a| a.to_string())), Align::Right),
        "MACH" => (num(r.mach.map(|a| format!("{:.2}", a))), Align::Right),
        "RLL" => (num(r.roll.map(|a| a.to_string())), Align::Right),
        "TAR" => (num(r.tar.map(|a| a.to_string())), Align::Right),
        "TEMP" => (num(r.temperature.map(|a| format!("{:.1}", a))), Align::Right),
        "WND" => (num(r.wind.map(|a| a.0.to_string())), Align::Right),
        "WDR" => (num(r.wind.map(|a| a.1.to_string())), Align::Right),
        "HUM" => (num(r.humidity.map(|a| a.to_string())), Align::Right),
        "PRES" => (num(r.pressure.map(|a| a.to_string())), Align::Right),
        "TB" => (num(r.turbulence.map(|a| a.to_string())), Align::Right),
        "VX" => (format!("{}{}", r.category.0, r.category.1), Align::Left),
        "DF" => (if r.last_df != 0 { r.last_df.to_string() } else { String::new() }, Align::Right),
        "TC" => (if r.last_tc != 0 { r.last_tc.to_string() } else { String::new() }, Align::Right),
        "V" => (num(r.version.map(|a| a.to_string())), Align::Right),
        "S" => (if r.ss == ' ' { String::new() } else { r.ss.to_string() }, Align::Left),
        "PTH" => (String::new(), Align::Shape),
        "LC" => (r.age.to_string(), Align::Right),
        _ => return None,
    })
}

pub const BASE_COLS: [&str; 14] = ["ICAO", "RG", "SQWK", "W", "CALLSIGN", "LATITUDE", "LONGITUDE", "DIST", "ALT B", "VRATE", "TRK", "HDG", "GSP", "LC"];
pub const GROUPS: [(char, &[&str]); 5] = [
    ('A', &["ALT G", "ALT S", "BARO"]),
    ('s', &["TAS", "IAS", "MACH"]),
    ('a', &["RLL", "TAR"]),
    ('w', &["TEMP", "WND", "WDR", "HUM", "PRES", "TB"]),
    ('e', &["VX", "DF", "TC", "V", "S", "PTH"]),
];

pub fn expected_columns(display: &str) -> Vec<&'static str> {
    let mut v: Vec<&'static str> = BASE_COLS.to_vec();
    for (c, cols) in GROUPS.iter() {
        if display.contains(*c) {
            v.extend(cols.iter());
        }
    }
    v
}

/// Check one printed table against the rows (in the order printed: matched by the ICAO cell).
/// Returns list of (class, message).
pub fn check_table(text: &str, display: &str, rows: &[PRow], check_age: bool) -> Vec<(String, String)> {
    let mut bad = Vec::new();
    let t = match parse_table(text) {
        Ok(t) => t,
        Err(e) => return vec![("table-structure".into(), e)],
    };
    // column groups present exactly when requested
    let want = expected_columns(display);
    let have: Vec<&str> = t.cols.iter().map(|c| c.0.as_str()).collect();
    for w in &want {
        if !have.contains(w) {
            bad.push(("column-missing".into(), format!("column {:?} missing for -i {:?}; header {:?}", w, display, t.header)));
        }
    }
    for h in &have {
        if !want.contains(h) {
            bad.push(("column-unexpected".into(), format!("column {:?} printed although -i {:?} does not request its group", h, display)));
        }
    }
    if t.header.chars().count() != t.sep.chars().count() {
        bad.push(("width".into(), format!("header width {} != separator width {}", t.header.chars().count(), t.sep.chars().count())));
    }
    if t.rows.len() != rows.len() {
        bad.push(("row-count".into(), format!("{} rows printed for {} aircraft", t.rows.len(), rows.len())));
    }
    let icao_col = t.cols.iter().find(|c| c.0 == "ICAO").cloned();
    for line in &t.rows {
        let Some((_, s, e)) = &icao_col else { break };
        let ic = cell(line, *s, *e);
        let Some(r) = rows.iter().find(|r| format!("{:06X}", r.icao) == ic.trim()) else {
            bad.push(("unknown-row".into(), format!("printed row with ICAO cell {:?} matches no aircraft: {:?}", ic, line)));
            continue;
        };
        let mut all_fit = true;
        for (name, st, en) in &t.cols {
            let Some((text, align)) = ref_cell(name, r) else { continue };
            let w = en - st;
            let fits = text.chars().count() <= w;
            if !fits {
                all_fit = false;
                continue; // a value wider than its column: layout of this row is not judged
            }
            let got = cell(line, *st, *en);
            match align {
                Align::Shape => {
                    if got.chars().count() != w && all_fit {
                        bad.push(("cell".into(), format!("{}: cell {:?} has wrong width", name, got)));
                    }
                }
                Align::Left | Align::Right => {
                    if name == "LC" && !check_age {
                        continue;
                    }
                    let exp = if align == Align::Left { format!("{:<w$}", text, w = w) } else { format!("{:>w$}", text, w = w) };
                    let ok = if name == "LC" {
                        // the age may have advanced by a second while printing
                        got == exp || got.trim().parse::<i64>().is_ok_and(|g| g == r.age + 1)
                    } else {
                        got == exp
                    };
                    if !ok && all_fit_so_far(line, &t, r, *st) {
                        bad.push((
                            if text.is_empty() { "blank-cell".to_string() } else { format!("cell-{}", name.replace(' ', "_")) },
                            format!("{:06X} column {:?}: printed {:?}, expected {:?} ({:?}-aligned in width {}) | row {:?}", r.icao, name, got, exp, align, w, line),
                        ));
                    }
                }
            }
        }
        if all_fit {
            let lw = line.chars().count();
            if lw != t.header.chars().count() {
                bad.push(("width".into(), format!("{:06X}: row width {} != header width {} although every value fits its column | {:?}", r.icao, lw, t.header.chars().count(), line)));
            }
        }
    }
    bad
}

/// cells left of position `upto` all fit their columns (an oversized value shifts everything to its right)
fn all_fit_so_far(_line: &str, t: &ParsedTable, r: &PRow, upto: usize) -> bool {
    t.cols.iter().filter(|c| c.1 < upto).all(|(name, st, en)| ref_cell(name, r).is_none_or(|(text, _)| text.chars().count() <= en - st))
}

fn opt<T>(r: &mut Rng, blank_1_in: u64, f: impl FnOnce(&mut Rng) -> T) -> Option<T> {
    if r.chance(1, blank_1_in) { None } else { Some(f(r)) }
}

/// rows covering, per column, blank / minimum / maximum in-range / negative values
pub fn gen_rows(r: &mut Rng, n: usize, fitting_only: bool) -> Vec<PRow> {
    let mut used = std::collections::HashSet::new();
    let mut v = Vec::new();
    let regs = ["US", "IE", "DE", "??", "GB", "RU", "", "F"];
    let srcs = [' ', '\u{2070}', '\u{2081}', '\u{2082}', '\u{2083}', '\u{2085}', '\u{2086}', '"', '_'];
    for i in 0..n {
        let icao = loop {
            let a = match r.below(6) {
                0 => r.below(16) as u32 + 1,
                1 => 0xFFFFFF - r.below(16) as u32,
                _ => r.addr(),
            };
            if used.insert(a) {
                break a;
            }
        };
        let extreme = i % 3; // 0 min-ish, 1 max-ish, 2 random
        let pick_u = |r: &mut Rng, lo: u32, hi: u32| match extreme {
            0 => lo,
            1 => hi,
            _ => lo + r.below((hi - lo + 1) as u64) as u32,
        };
        let pick_i = |r: &mut Rng, lo: i32, hi: i32| match extreme {
            0 => lo,
            1 => hi,
            _ => lo + r.below((hi - lo + 1) as u64) as i32,
        };
        let known_pos = !r.chance(1, 4);
        let (lat, lon) = if known_pos {
            match extreme {
                0 => (-89.99999, -179.99999),
                1 => (89.99999, 179.99999),
                _ => (r.f64() * 178.0 - 89.0 + 0.000001, r.f64() * 358.0 - 179.0 + 0.000001),
            }
        } else {
            (0.0, 0.0)
        };
        let codes = crate::fgen::rand_callsign_codes(r);
        let cs: String = crate::refmodel::codes::ref_callsign(crate::refmodel::codes::enc_callsign(&codes)).chars().take(r.below(9) as usize).collect();
        let wide = !fitting_only && r.chance(1, 6);
        v.push(PRow {
            icao,
            reg: regs[r.below(regs.len() as u64) as usize].to_string(),
            squawk: opt(r, 4, |r| pick_u(r, 0, 7777)),
            threat: if r.chance(1, 5) { Some(*r.pick(&['\u{2071}', '\u{2072}'])) } else { None },
            category: (r.below(5) as u32, r.below(8) as u32),
            ais: opt(r, 4, |_| cs.clone()),
            lat,
            lon,
            dist: if known_pos { opt(r, 3, |r| if wide { 12345.67 } else { [0.0, 999.94, r.f64() * 900.0][extreme] }) } else { None },
            altitude: opt(r, 4, |r| pick_u(r, 0, 99_975)),
            altitude_source: *r.pick(&srcs),
            altitude_gnss: opt(r, 3, |r| if wide { 4_294_966_000 } else { pick_u(r, 0, 99_999) }),
            selected_altitude: opt(r, 3, |r| pick_u(r, 0, 65_520)),
            target_altitude_source: *r.pick(&srcs),
            baro: opt(r, 3, |r| pick_u(r, 800, 1209)),
            vrate: opt(r, 4, |r| if wide { -32_640 } else { pick_i(r, -9_984, 32_640) }),
            vrate_source: *r.pick(&srcs),
            track: opt(r, 4, |r| pick_u(r, 0, 359)),
            track_source: *r.pick(&srcs),
            heading: opt(r, 3, |r| pick_u(r, 0, 359)),
            heading_source: *r.pick(&srcs),
            grspeed: opt(r, 4, |r| pick_u(r, 0, 999)),
            tas: opt(r, 3, |r| pick_u(r, 0, 500)),
            ias: opt(r, 3, |r| if wide { 1023 } else { pick_u(r, 1, 999) }),
            mach: opt(r, 3, |r| [0.004, 1.0, (r.below(250) as f64) * 0.004][extreme]),
            roll: opt(r, 3, |r| pick_i(r, -50, 50)),
            tar: opt(r, 3, |r| pick_i(r, -16, 15)),
            temperature: opt(r, 3, |r| [-80.0, 60.0, r.f64() * 100.0 - 70.0][extreme]),
            wind: opt(r, 3, |r| (pick_u(r, 0, 300), pick_u(r, 0, 359))),
            humidity: opt(r, 3, |r| pick_u(r, 0, 100)),
            pressure: opt(r, 3, |r| pick_u(r, 0, 2048)),
            turbulence: opt(r, 3, |r| pick_u(r, 0, 15)),
            last_df: *r.pick(&[0u32, 4, 5, 11, 17, 20, 21]),
            last_tc: *r.pick(&[0u32, 1, 4, 11, 19, 31]),
            version: opt(r, 3, |r| r.below(3) as u32),
            ss: *r.pick(&[' ', 'N', 'P', 'T', 'S']),
            pos_age: opt(r, 3, |r| r.below(200) as i64),
            trk_age: opt(r, 3, |r| r.below(200) as i64),
            hdg_age: opt(r, 3, |r| r.below(200) as i64),
            age: [0, 98, r.below(60) as i64][extreme],
        });
    }
    v
}

pub fn display_subsets() -> Vec<String> {
    let letters = ['a', 'A', 'e', 'w', 's'];
    (0..32u32).map(|m| letters.iter().enumerate().filter(|(i, _)| (m >> i) & 1 == 1).map(|(_, c)| *c).collect::<String>()).collect()
}

fn printed_rows(ctx: &Ctx) -> Report {
    let mut rep = Report::new("C14", "print-subprocess");
    let mut r = ctx.rng("c14");
    let subsets = display_subsets();
    let rounds = ctx.n(1, 40);
    let nrows = if ctx.quick() { 60 } else { 120 };
    for round in 0..rounds {
        let mut specs = Vec::new();
        for (si, d) in subsets.iter().enumerate() {
            if !ctx.mine((si as u64) + round * 32) {
                continue;
            }
            let rows = gen_rows(&mut r, nrows, si % 2 == 0);
            // -i letters may be spread over several arguments and carry unknown letters
            let display = match si % 3 {
                0 => vec![d.clone()],
                1 => d.chars().map(|c| c.to_string()).collect::<Vec<_>>().into_iter().chain(std::iter::once("".to_string())).collect(),
                _ => vec![format!("{}zQ", d).replace('Q', "")],
            };
            specs.push((d.clone(), TableSpec { display, order: vec!["".into()], rows }));
        }
        if specs.is_empty() {
            continue;
        }
        let tables: Vec<TableSpec> = specs.iter().map(|s| s.1.clone()).collect();
        match render(&tables) {
            Err(e) => {
                if e.contains("panicked") {
                    rep.violation("panic-in-print", "print child".into(), e, vec![]);
                } else {
                    rep.inconclusive(e);
                }
            }
            Ok(texts) => {
                for ((d, spec), text) in specs.iter().zip(texts.iter()) {
                    rep.count("tables_rendered", 1);
                    rep.count("rows_rendered", spec.rows.len() as i64);
                    rep.count("cells_compared", (spec.rows.len() * expected_columns(d).len()) as i64);
                    for row in &spec.rows {
                        rep.eval(Some(format!("{}|{}", d, row.to_line()).as_bytes()));
                    }
                    rep.class(&format!("-i {:?}", d));
                    let bad = check_table(text, d, &spec.rows, true);
                    if rep.want_sample() {
                        rep.sample(
                            J::obj()
                                .with("display", J::s(d))
                                .with("header", J::s(text.lines().next().unwrap_or("")))
                                .with("first_row", J::s(text.lines().nth(2).unwrap_or("")))
                                .with("rows", J::i(spec.rows.len() as u64))
                                .with("problems", J::i(bad.len() as u64)),
                        );
                    }
                    for (class, msg) in bad.into_iter().take(6) {
                        rep.violation(&class, format!("-i {:?}", d), msg, vec![format!("note print sub-process with -i {:?}; spec rows: {}", d, spec.rows.len())]);
                    }
                }
            }
        }
    }
    rep.exhaustive.push("all 32 subsets of the five -i groups".into());
    rep
}

/// Non-interference of the source markers: the one-character marker printed next to a value belongs to that value's
/// column. Two tables that differ only in the marker field of column C may differ only inside C's span and the one
/// character after it; every other cell - in particular the markers of the other columns - must print identically.
/// (The oracle needs no definition of the marker alphabet: values are rotated among the rows of the same table.)
fn marker_noninterference(ctx: &Ctx) -> Report {
    let mut rep = Report::new("C14", "marker-non-interference");
    let mut r = ctx.rng("c14m");
    let rounds = ctx.share(ctx.n(32, 640));
    let fields: [(&str, &str); 5] = [("altitude_source", "ALT B"), ("target_altitude_source", "ALT S"), ("vrate_source", "VRATE"), ("track_source", "TRK"), ("heading_source", "HDG")];
    for round in 0..rounds {
        let display = ["aAews", "A", "aA", "As", "aAs"][(round % 5) as usize].to_string();
        let rows = gen_rows(&mut r, 24, true);
        let mut tables = vec![TableSpec { display: vec![display.clone()], order: vec!["".into()], rows: rows.clone() }];
        for (f, _) in fields.iter() {
            let mut v = rows.clone();
            let n = v.len();
            for i in 0..n {
                let src = &rows[(i + 1) % n];
                match *f {
                    "altitude_source" => v[i].altitude_source = src.altitude_source,
                    "target_altitude_source" => v[i].target_altitude_source = src.target_altitude_source,
                    "vrate_source" => v[i].vrate_source = src.vrate_source,
                    "track_source" => v[i].track_source = src.track_source,
                    _ => v[i].heading_source = src.heading_source,
                }
            }
            tables.push(TableSpec { display: vec![display.clone()], order: vec!["".into()], rows: v });
        }
        let texts = match render(&tables) {
            Ok(t) => t,
            Err(e) => {
                rep.inconclusive(e);
                continue;
            }
        };
        let Ok(base) = parse_table(&texts[0]) else {
            rep.inconclusive("base table does not parse".into());
            continue;
        };
        for (k, (f, col)) in fields.iter().enumerate() {
            let Ok(var) = parse_table(&texts[k + 1]) else {
                rep.inconclusive("variant table does not parse".into());
                continue;
            };
            let span = base.cols.iter().find(|(n, _, _)| n == col).map(|(_, s, e)| (*s, *e + 1));
            for (i, (lb, lv)) in base.rows.iter().zip(var.rows.iter()).enumerate() {
                let (cb, cv): (Vec<char>, Vec<char>) = (lb.chars().collect(), lv.chars().collect());
                let changed: Vec<usize> = (0..cb.len().max(cv.len())).filter(|&j| cb.get(j) != cv.get(j)).collect();
                let differs_in_spec = {
                    let a = &tables[0].rows[i];
                    let b = &tables[k + 1].rows[i];
                    a.to_line() != b.to_line()
                };
                let ek = format!("{}|{}|{}", f, display, tables[k + 1].rows[i].to_line());
                rep.eval(if differs_in_spec { Some(ek.as_bytes()) } else { None });
                rep.count("row_pairs_compared", 1);
                let outside: Vec<usize> = changed.iter().copied().filter(|j| span.is_none_or(|(s, e)| *j < s || *j > e)).collect();
                if !outside.is_empty() {
                    rep.violation(
                        &format!("marker-of-{}-leaks", f),
                        format!("-i {:?} {}", display, f),
                        format!("changing only {} (column {:?}, span {:?}) changed the printed row at character positions {:?}: {:?} -> {:?}", f, col, span, outside, lb, lv),
                        vec![format!("note print sub-process, -i {:?}; row spec {}", display, tables[k + 1].rows[i].to_line())],
                    );
                    break;
                }
            }
        }
    }
    rep
}

/// C07: wake-class letter for all 32 (TC, CA) pairs on the printed table
pub fn wake_letters(ctx: &Ctx) -> Option<Report> {
    if ctx.shard != 0 {
        return None;
    }
    let mut rep = Report::new("C07", "wake-letter");
    let mut rows = Vec::new();
    for tc in 0..=4u32 {
        for ca in 0..8u32 {
            let mut r = PRow { icao: 0x100000 + tc * 16 + ca, reg: "RU".into(), category: (tc, ca), altitude_source: ' ', target_altitude_source: ' ', vrate_source: ' ', track_source: ' ', heading_source: ' ', ss: ' ', ..Default::default() };
            r.ais = Some(format!("T{}C{}", tc, ca));
            rows.push(r);
        }
    }
    match render(&[TableSpec { display: vec!["e".into()], order: vec!["".into()], rows: rows.clone() }]) {
        Err(e) => rep.inconclusive(e),
        Ok(t) => match parse_table(&t[0]) {
            Err(e) => rep.violation("table-structure", "wake".into(), e, vec![]),
            Ok(pt) => {
                let w = pt.cols.iter().find(|c| c.0 == "W").cloned();
                let ic = pt.cols.iter().find(|c| c.0 == "ICAO").cloned();
                let (Some(w), Some(ic)) = (w, ic) else {
                    rep.violation("column-missing", "W".into(), format!("no W/ICAO column in {:?}", pt.header), vec![]);
                    return Some(rep);
                };
                for r in &rows {
                    let line = pt.rows.iter().find(|l| cell(l, ic.1, ic.2) == format!("{:06X}", r.icao));
                    let want = ref_wake(r.category.0, r.category.1).map(|c| c.to_string()).unwrap_or(" ".into());
                    let got = line.map(|l| cell(l, w.1, w.2));
                    rep.eval(Some(format!("{:?}", r.category).as_bytes()));
                    if got.as_deref() != Some(want.as_str()) {
                        rep.violation("wake-letter", format!("{:?}", r.category), format!("category {:?}: W column shows {:?}, expected {:?}", r.category, got, want), vec![format!("note print sub-process, row category {:?}", r.category)]);
                    }
                }
                rep.sample(J::obj().with("pairs_checked", J::i(rows.len() as u64)).with("header", J::s(&pt.header)));
            }
        },
    }
    rep.exhaustive.push("all (type code 0..4, category 0..7) pairs".into());
    Some(rep)
}

pub fn run(ctx: &Ctx) -> Vec<Report> {
    let mut out = vec![printed_rows(ctx), marker_noninterference(ctx)];
    if let Some(r) = super::cli::refresh_blocks(ctx) {
        out.push(r);
    }
    out
}
