//! C17 – registration country follows the ICAO address allocation for all 2^24 addresses.
//! Exhaustive sweep through both public constructors.

use crate::fgen::df11;
use crate::json::J;
use crate::refmodel::country::*;
use crate::report::Report;
use crate::Ctx;
use squitterator::{DF, Downlink, Plane, get_message};

pub fn run(ctx: &Ctx) -> Vec<Report> {
    let mut rep = Report::new("C17", "country-sweep");
    // one DF value / message reused for every address: the country depends on the address argument only
    let hex = df11(0x400000, 5, 0).hex();
    let msg = get_message(&hex).expect("reference DF11 frame must be accepted");
    let dl = DF::from_message(&msg).expect("DF::from_message");
    let n = 1u32 << 24;
    let per = n / ctx.nshards as u32;
    let lo = per * ctx.shard as u32;
    let hi = if ctx.shard + 1 == ctx.nshards { n } else { lo + per };
    let mut last_block: Option<usize> = None;
    let mut blocks_seen = std::collections::BTreeSet::new();
    let mut codes_seen = std::collections::BTreeSet::new();
    for a in lo..hi {
        let p1 = Plane::from_downlink(&dl, a);
        let p2 = Plane::from_message(&msg, 11, a, false);
        let b = block_of(a);
        // non-trivial = address inside a block (an implementation answering "??" everywhere fails it);
        // distinctness is per address
        rep.eval_hash(if b.is_some() { Some(a as u64) } else { None });
        if b != last_block {
            if let Some(i) = b {
                blocks_seen.insert(i);
            }
            last_block = b;
        }
        for (which, reg) in [("from_downlink", p1.reg), ("from_message", p2.reg)] {
            if !ref_country_ok(a, reg) {
                let want = match b {
                    Some(i) => format!("{:?} (block {:06X}-{:06X})", BLOCKS[i].2, BLOCKS[i].0, BLOCKS[i].1),
                    None => "\"??\" (outside every block)".to_string(),
                };
                // one violation class per (block or gap start) so that distinct mis-allocations stay visible
                let cls = match b {
                    Some(i) => format!("block-{:06X}", BLOCKS[i].0),
                    None => {
                        let gap_start = BLOCKS.iter().rev().find(|x| x.1 < a).map(|x| x.1 + 1).unwrap_or(0);
                        format!("gap-{:06X}", gap_start)
                    }
                };
                rep.violation(
                    &cls,
                    format!("{:06X} via {}", a, which),
                    format!("address {:06X}: Plane::{} shows {:?}, allocation table requires {}", a, which, reg, want),
                    vec![
                        format!("note Plane::{}(.., icao={:#08X}).reg", which, a),
                        "opts U=0 R=0".into(),
                        format!("seg {}", df11(a, 5, 0).hex()),
                        match b {
                            Some(i) => format!("expect {:06X} reg {}", a, BLOCKS[i].2.iter().filter(|c| **c != "*").cloned().collect::<Vec<_>>().join("||")),
                            None => format!("expect {:06X} reg ??", a),
                        },
                    ],
                );
            }
            if p1.icao != a {
                rep.violation("icao-field", format!("{:06X}", a), format!("constructor stored icao {:06X}", p1.icao), vec![]);
            }
            codes_seen.insert(reg);
        }
        if rep.want_sample() && a % 2_796_203 == 77 {
            rep.sample(J::obj().with("address", J::s(format!("{:06X}", a))).with("from_downlink", J::s(p1.reg)).with("from_message", J::s(p2.reg)).with(
                "table",
                J::s(match b {
                    Some(i) => format!("{:?}", BLOCKS[i].2),
                    None => "outside every block".into(),
                }),
            ));
        }
    }
    rep.count("addresses_swept", (hi - lo) as i64);
    rep.count("constructor_calls", 2 * (hi - lo) as i64);
    rep.count("blocks_entered", blocks_seen.len() as i64);
    rep.count("distinct_codes_observed", codes_seen.len() as i64);
    rep.exhaustive.push("all 16,777,216 addresses through Plane::from_downlink and Plane::from_message".into());
    vec![rep]
}
