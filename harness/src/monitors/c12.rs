//! C12 – rows live exactly as long as the aircraft is being heard.
//! Schedules of bursts and simulated silences; model = last accepted-frame time per address
//! on a virtual clock (sum of shifts); real elapsed time is bounded and only ever makes
//! a case inconclusive, never a violation.

use crate::drive::{Opts, Table, now_us};
use crate::fgen::*;
use crate::json::J;
use crate::refmodel::frames::*;
use crate::replay::{opts_line, seg_line};
use crate::report::Report;
use crate::rng::Rng;
use crate::Ctx;
use std::collections::BTreeMap;
use std::time::Instant;

struct Ac {
    addr: u32,
    last_heard: Option<f64>,
    /// accepted frames since the row was (re)created
    since_creation: Vec<String>,
    swept: bool,
    recreated_check_pending: bool,
}

pub fn run(ctx: &Ctx) -> Vec<Report> {
    let mut rep = Report::new("C12", "row-lifetime");
    let mut r = ctx.rng("c12");
    let n = ctx.share(ctx.n(4_000, 250_000));
    for _ in 0..n {
        schedule(&mut rep, &mut r);
    }
    vec![rep]
}

fn schedule(rep: &mut Report, r: &mut Rng) {
    let d = *r.pick(&[1i64, 5, 5, 60, 60, 600, 86_400]);
    let filter: Option<Vec<u32>> = if r.chance(1, 3) {
        let mut f: Vec<u32> = FORMATS.iter().copied().filter(|_| r.chance(1, 2)).collect();
        if f.is_empty() {
            f.push(17);
        }
        Some(f)
    } else {
        None
    };
    let opts = Opts { u: r.chance(1, 2), r: r.chance(1, 4), filter: filter.clone(), delete_after: d, ..Default::default() };
    let nac = 3 + r.below(38) as usize;
    let mut acs: Vec<Ac> = Vec::new();
    while acs.len() < nac {
        let a = r.addr();
        if !acs.iter().any(|x| x.addr == a) {
            acs.push(Ac { addr: a, last_heard: None, since_creation: vec![], swept: false, recreated_check_pending: false });
        }
    }
    let admitted = |df: u32| filter.as_ref().is_none_or(|f| f.contains(&df));
    let mut t = Table::new();
    let mut clock = 0.0f64;
    let start = Instant::now();
    let mut script = vec![opts_line(&opts, None)];
    let steps = 6 + r.below(12);
    let dd = d as f64;
    let mut desc: Vec<String> = Vec::new();
    for step in 0..steps {
        if r.chance(2, 5) && step > 0 {
            let s = *r.pick(&[dd - 1.0, dd - 0.5, dd, dd + 0.5, dd + 1.0, 2.0 * dd, 0.3 * dd]);
            let s = s.max(0.0);
            t.shift_back(s, None);
            clock += s;
            script.push(format!("shift {}", s));
            desc.push(format!("silence {}s", s));
            continue;
        }
        // burst
        let big = r.chance(1, 2);
        let nframes = if big { 12 + r.below(20) } else { 1 + r.below(6) };
        let ntalk = 1 + r.below((nac as u64 / 2).max(1)) as usize;
        let talkers: Vec<usize> = (0..ntalk).map(|_| r.below(nac as u64) as usize).collect();
        let mut lines: Vec<String> = Vec::new();
        let mut accepted = 0usize;
        let mut heard: BTreeMap<usize, Vec<String>> = BTreeMap::new();
        let mut excluded: BTreeMap<usize, u32> = BTreeMap::new();
        for _ in 0..nframes {
            let i = *r.pick(&talkers);
            let df = *r.pick(&FORMATS);
            let f = rand_frame_df(r, acs[i].addr, df);
            lines.push(f.hex());
            if admitted(df) {
                accepted += 1;
                heard.entry(i).or_default().push(f.hex());
            } else {
                *excluded.entry(i).or_default() += 1;
            }
            if r.chance(1, 10) {
                // junk: must neither refresh nor count
                let j = match r.below(3) {
                    0 => "".to_string(),
                    1 => build(17, acs[i].addr, 5, r.bits(56), 0).hex()[..27].to_string(),
                    _ => {
                        let mut g = build(17, acs[i].addr, 5, r.bits(56), 0);
                        g.flip(40 + r.below(40) as u32);
                        g.hex()
                    }
                };
                lines.push(j);
            }
        }
        let before_keys = t.keys();
        let stamps_before: BTreeMap<usize, i64> =
            excluded.keys().filter(|i| !heard.contains_key(i)).filter_map(|i| t.get(acs[*i].addr).map(|r| (*i, r.timestamp))).collect();
        let seg_start_us = now_us();
        script.push(seg_line(&lines));
        let res = t.run(&opts, &lines);
        desc.push(format!("burst {} lines ({} accepted) from {} aircraft", lines.len(), accepted, heard.len()));
        if let Err(e) = res {
            let mut sc = script.clone();
            sc.push("expect-nopanic".into());
            rep.violation("panic", format!("{:?}", e), format!("{:?}", e), sc);
            return;
        }
        let wall = start.elapsed().as_secs_f64();
        // model update
        for (i, fr) in &heard {
            let a = &mut acs[*i];
            if a.swept || a.last_heard.is_none() || !before_keys.contains(&a.addr) {
                if a.swept {
                    a.recreated_check_pending = true;
                }
                a.since_creation.clear();
                a.swept = false;
            }
            a.since_creation.extend(fr.iter().cloned());
            a.last_heard = Some(clock);
        }
        let keys = t.keys();
        let mut problems: Vec<(String, String, Vec<String>)> = Vec::new();
        let mut live = 0usize;
        for (i, a) in acs.iter_mut().enumerate() {
            let present = keys.contains(&a.addr);
            let Some(lh) = a.last_heard else {
                if present {
                    problems.push(("row-for-unheard-address".into(), format!("{:06X} has a row but no accepted frame", a.addr), vec![format!("expect-absent {:06X}", a.addr)]));
                }
                continue;
            };
            let age = clock - lh;
            if age < dd {
                live += 1;
            }
            // (i) heard fewer than d seconds ago => present
            if age + wall + 0.05 < dd && !present {
                problems.push((
                    "live-row-missing".into(),
                    format!("{:06X} heard {} s ago (< delete_after {}) but has no row", a.addr, age, d),
                    vec![format!("expect-present {:06X}", a.addr)],
                ));
            }
            // (ii) heard in this segment => last-contact age restarted
            if heard.contains_key(&i) {
                match t.get(a.addr) {
                    Some(row) => {
                        if row.timestamp < seg_start_us {
                            problems.push((
                                "age-not-restarted".into(),
                                format!("{:06X} received an accepted frame in this segment but its last-contact stamp is {:.3} s older than the segment start", a.addr, (seg_start_us - row.timestamp) as f64 / 1e6),
                                vec![format!("note expected {:06X} timestamp >= segment start", a.addr), format!("show {:06X}", a.addr)],
                            ));
                        }
                    }
                    None => {
                        if age + wall + 0.05 < dd {
                            // already reported by (i)
                        }
                    }
                }
            }
            // frames excluded by -f must not refresh the row
            if let Some(sb) = stamps_before.get(&i) {
                if let Some(row) = t.get(a.addr) {
                    rep.count("excluded_only_rows_checked", 1);
                    if row.timestamp != *sb {
                        problems.push((
                            "excluded-frame-refreshed".into(),
                            format!("{:06X} received only frames excluded by -f in this segment, yet its last-contact stamp moved", a.addr),
                            vec![format!("note expected {:06X} timestamp unchanged by the last segment", a.addr), format!("show {:06X}", a.addr)],
                        ));
                    }
                }
            }
            // (iii) expired before the segment, >= 12 accepted frames of others, none of its own => absent
            if !heard.contains_key(&i) && age >= dd && accepted >= 12 {
                if present {
                    problems.push((
                        "expired-row-not-swept".into(),
                        format!("{:06X} silent for {} s (>= delete_after {}) and {} accepted frames of other aircraft passed, row still present", a.addr, age, d, accepted),
                        vec![format!("expect-absent {:06X}", a.addr)],
                    ));
                } else {
                    a.swept = true;
                }
            }
            if !present && !heard.contains_key(&i) && age >= dd {
                a.swept = true;
            }
            // (iv) re-created rows remember nothing
            if a.recreated_check_pending && present && heard.contains_key(&i) {
                a.recreated_check_pending = false;
                let mut fresh = Table::new();
                let _ = fresh.run(&opts, &a.since_creation);
                let want = fresh.get(a.addr).map(|x| x.unstamped());
                let got = t.get(a.addr).map(|x| x.unstamped());
                rep.count("recreated_rows_compared", 1);
                if want != got {
                    let dnames = match (&want, &got) {
                        (Some(w), Some(g)) => w.diff(g).join("; "),
                        _ => "presence differs".into(),
                    };
                    let mut ex = vec![];
                    if let (Some(w), Some(g)) = (&want, &got) {
                        for n in w.diff_names(g) {
                            let v = w.fields().into_iter().find(|(k, _)| *k == n).unwrap().1;
                            ex.push(format!("expect {:06X} {} {}", a.addr, n, v));
                        }
                    }
                    problems.push(("recreated-row-remembers".into(), format!("{:06X} expired, was swept and heard again; its row differs from a row built from the new frames only: {}", a.addr, dnames), ex));
                }
            }
        }
        // (v) bound on the table size. In this harness every segment is a separate reader run whose sweep
        // counter starts at 0, so a sweep is guaranteed only inside a segment with >= 12 accepted frames;
        // after such a segment no stale row may remain: rows <= addresses heard within delete_after.
        let borderline = acs.iter().filter(|a| a.last_heard.is_some_and(|lh| (clock - lh - wall - 0.05) < dd && clock - lh >= dd)).count();
        if accepted >= 12 && keys.len() > live + borderline {
            problems.push(("table-too-large".into(), format!("{} rows after a sweep but only {} addresses heard within {} s", keys.len(), live, d), vec![format!("note table has {} rows", keys.len())]));
        }
        for k in &keys {
            if !acs.iter().any(|a| a.addr == *k) {
                problems.push(("spurious-row".into(), format!("row {:06X} belongs to no aircraft of the schedule", k), vec![format!("expect-absent {:06X}", k)]));
            }
        }
        let key = format!("{}|{}", opts.describe(), desc.join(";"));
        rep.eval(Some(format!("{}|{}", key, lines.join(",")).as_bytes()));
        rep.count("segments", 1);
        rep.count("frames_fed", lines.len() as i64);
        if accepted >= 12 {
            rep.count("segments_forcing_a_sweep", 1);
        }
        rep.count("rows_checked", acs.len() as i64);
        rep.class(&format!("d={}:{}:{}", d, if opts.u { "-U" } else { "default" }, if filter.is_some() { "filtered" } else { "all" }));
        if !problems.is_empty() {
            let (class, detail, ex) = problems.remove(0);
            let mut sc = script.clone();
            sc.push("expect-nopanic".into());
            sc.extend(ex);
            rep.violation(&class, key, format!("{} | schedule: {}", detail, desc.join("; ")), sc);
            return;
        }
    }
    if rep.want_sample() {
        rep.sample(
            J::obj()
                .with("options", J::s(opts.describe()))
                .with("aircraft", J::i(nac as u64))
                .with("schedule", J::arr_s(&desc))
                .with("rows_at_end", J::i(t.len() as u64))
                .with("swept_addresses", J::i(acs.iter().filter(|a| a.swept).count() as u64)),
        );
    }
    rep.count("sweeps_observed_addresses", acs.iter().filter(|a| a.swept).count() as i64);
}
