//! Monitors, one module per property (some properties have several sub-monitors).

use crate::Ctx;
use crate::report::Report;

pub mod cli;
pub mod common;
pub mod c01;
pub mod c02;
pub mod c03;
pub mod c04;
pub mod c05;
pub mod c06;
pub mod c07;
pub mod c08;
pub mod c09;
pub mod c10;
pub mod c11;
pub mod c12;
pub mod c13;
pub mod c15;
pub mod c16;
pub mod c19;
pub mod c14;
pub mod c17;
pub mod c18;

pub type MonitorFn = fn(&Ctx) -> Vec<Report>;

pub fn registry() -> Vec<(&'static str, MonitorFn)> {
    vec![
        ("C01", c01::run as MonitorFn),
        ("C02", c02::run as MonitorFn),
        ("C03", c03::run as MonitorFn),
        ("C04", c04::run as MonitorFn),
        ("C05", c05::run as MonitorFn),
        ("C06", c06::run as MonitorFn),
        ("C07", c07::run as MonitorFn),
        ("C08", c08::run as MonitorFn),
        ("C09", c09::run as MonitorFn),
        ("C10", c10::run as MonitorFn),
        ("C11", c11::run as MonitorFn),
        ("C12", c12::run as MonitorFn),
        ("C13", c13::run as MonitorFn),
        ("C14", c14::run as MonitorFn),
        ("C15", c15::run as MonitorFn),
        ("C16", c16::run as MonitorFn),
        ("C17", c17::run as MonitorFn),
        ("C18", c18::run as MonitorFn),
        ("C19", c19::run as MonitorFn),
    ]
}
