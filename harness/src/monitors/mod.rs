//! Monitors, one module per property (some properties have several sub-monitors).

use crate::Ctx;
use crate::report::Report;

pub mod cli;
pub mod common;
pub mod c02;
pub mod c03;
pub mod c04;

pub type MonitorFn = fn(&Ctx) -> Vec<Report>;

pub fn registry() -> Vec<(&'static str, MonitorFn)> {
    vec![
        ("C02", c02::run as MonitorFn),
        ("C03", c03::run as MonitorFn),
        ("C04", c04::run as MonitorFn),
    ]
}
