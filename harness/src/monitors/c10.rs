//! C10 – Comm-B data are shown only when valid, advertised and correctly decoded.
//! Lock-step gating histories; "only if" judged with weak (necessary) preconditions,
//! "if" judged with strong (sufficient) ones, so neither direction over-demands.

use crate::drive::{Opts, Row};
use crate::fgen::*;
use crate::json::J;
use crate::lockstep::*;
use crate::refmodel::codes::*;
use crate::refmodel::commb::*;
use crate::report::Report;
use crate::rng::Rng;
use crate::Ctx;
use std::collections::HashSet;

#[derive(Clone, Debug)]
pub enum Kind {
    Df11(u32),
    Df17Ca(u32),
    CommB { df: u32, mb: u64, what: &'static str },
}

#[derive(Clone, Debug)]
pub struct Fr {
    pub kind: Kind,
    pub hex: String,
}

fn g(mb: u64, sb: u32, eb: u32) -> u64 {
    (mb >> (56 - eb)) & ((1u64 << (eb - sb + 1)) - 1)
}

/// two's-complement style (sign, magnitude-field) of a value in LSB units for an n-bit magnitude field
fn signed_field(v: i64, nbits: u32) -> (u32, u32) {
    let m = 1i64 << nbits;
    if v >= 0 { (0, (v.min(m - 1)) as u32) } else { (1, ((v + m).max(0)) as u32) }
}

pub fn gen_50(r: &mut Rng) -> (u64, &'static str) {
    let roll_deg = match r.below(6) {
        0 => 50.0,
        1 => -50.0,
        2 => 50.4,
        3 => -55.0,
        _ => r.f64() * 90.0 - 45.0,
    };
    let roll = signed_field((roll_deg * 256.0 / 45.0).round() as i64, 9);
    let trk_deg = r.f64() * 360.0;
    let tv = (trk_deg * 512.0 / 90.0).round() as i64; // 0..2048
    let tv = if tv >= 1024 { tv - 2048 } else { tv };
    let track = signed_field(tv, 10);
    let gs = match r.below(6) {
        0 => 300,
        1 => 301,
        2 => 299,
        _ => 50 + r.below(280) as u32,
    };
    let tas = match r.below(8) {
        0 => 250,
        1 => 251,
        2 => (gs as i64 - 100).max(1) as u32, // |GS-TAS| = 200
        3 => (gs as i64 - 99).max(1) as u32,  // 198
        _ => ((gs as i64) + r.range(-60, 60)).clamp(1, 1023) as u32,
    };
    let tar_dps = r.f64() * 30.0 - 15.0; // both turn directions
    let tar = signed_field((tar_dps * 32.0).round() as i64, 9);
    let mut st = [true; 5];
    let mut what = "5,0";
    let (mut roll, mut track, mut gs, mut tar, mut tas) = (roll, track, gs, tar, tas);
    match r.below(10) {
        0 => {
            st[r.below(5) as usize] = false;
            what = "5,0 status cleared";
        }
        1 => {
            match r.below(5) {
                0 => roll.1 = 0,
                1 => track.1 = 0,
                2 => gs = 0,
                3 => tar.1 = 0,
                _ => tas = 0,
            }
            what = "5,0 zero value";
        }
        _ => {}
    }
    (enc_50(roll, track, gs, tar, tas, st), what)
}

pub fn gen_60(r: &mut Rng) -> (u64, &'static str) {
    let hdg_deg = r.f64() * 360.0;
    let hv = (hdg_deg * 512.0 / 90.0).round() as i64;
    let hv = if hv >= 1024 { hv - 2048 } else { hv };
    let mut hdg = signed_field(hv, 10);
    // keep MB bit 12 (heading LSB) clear in most cases so the field is not also 5,0-shaped
    if r.chance(3, 4) {
        hdg.1 &= !1;
    }
    let mut ias = 1 + r.below(1023) as u32;
    let mut mach = match r.below(6) {
        0 => 250,
        1 => 251,
        2 => 249,
        _ => 1 + r.below(260) as u32,
    };
    let rate = |r: &mut Rng| -> (u32, u32) {
        let fpm = match r.below(6) {
            0 => 5984,
            1 => -5984,
            2 => 6016,
            3 => -6016,
            _ => r.range(-7000, 7000),
        };
        signed_field(fpm.div_euclid(32), 9)
    };
    let mut baro = rate(r);
    let mut inert = rate(r);
    let mut st = [true; 5];
    let mut what = "6,0";
    match r.below(10) {
        0 => {
            st[r.below(5) as usize] = false;
            what = "6,0 status cleared";
        }
        1 => {
            match r.below(5) {
                0 => hdg.1 = 0,
                1 => ias = 0,
                2 => mach = 0,
                3 => baro.1 = 0,
                _ => inert.1 = 0,
            }
            what = "6,0 zero value";
        }
        _ => {}
    }
    (enc_60(hdg, ias, mach, baro, inert, st), what)
}

pub fn gen_40(r: &mut Rng) -> (u64, &'static str) {
    let mut mcp = 1 + r.below(4095) as u32;
    let mut fms = if r.chance(1, 2) { mcp } else { 1 + r.below(4095) as u32 };
    let mut baro = 1 + r.below(4095) as u32;
    let modes = 1 + r.below(7) as u32;
    let src = 1 + r.below(3) as u32;
    let mut st = [true; 5];
    let mut what = "4,0";
    let mut reserved: Option<u32> = None;
    match r.below(10) {
        0 => {
            st[r.below(3) as usize] = false;
            what = "4,0 status cleared";
        }
        1 => {
            match r.below(3) {
                0 => mcp = 0,
                1 => fms = 0,
                _ => baro = 0,
            }
            what = "4,0 zero value";
        }
        2 => {
            reserved = Some(*r.pick(&[40u32, 41, 42, 43, 44, 45, 46, 47, 52, 53]));
            what = "4,0 reserved bit set";
        }
        3 | 4 => {
            // sparse / boundary registers: single-bit field values, extremes, optional groups absent. These are the
            // MB fields most likely to be mistaken for another register (few bits set) and the classic boundary class.
            let bv = |r: &mut Rng| -> u32 {
                match r.below(4) {
                    0 => 1u32 << r.below(12),
                    1 => 4095,
                    2 => 1,
                    _ => 1 + r.below(4095) as u32,
                }
            };
            mcp = bv(r);
            fms = bv(r);
            baro = bv(r);
            let mode_grp = r.chance(1, 2);
            let src_grp = r.chance(2, 3);
            st[3] = mode_grp;
            st[4] = src_grp;
            let mb = enc_40(mcp, fms, baro, if mode_grp { modes } else { 0 }, if src_grp { src } else { 0 }, st);
            return (mb, "4,0 sparse/boundary values");
        }
        _ => {}
    }
    let mut mb = enc_40(mcp, fms, baro, modes, src, st);
    if let Some(b) = reserved {
        mb |= 1u64 << (56 - b);
    }
    (mb, what)
}

pub fn gen_commb(r: &mut Rng, addr: u32) -> Fr {
    let (mb, what): (u64, &'static str) = match r.below(12) {
        0 | 1 => (enc_17(r.chance(2, 3), r.chance(2, 3), r.chance(2, 3), r.bits(24) as u32), "1,7"),
        2 => (enc_20(enc_callsign(&rand_callsign_codes(r))), "2,0"),
        3 => ((0x30u64 << 48) | (r.bits(48) & 0xFFFF_FFFF_FFFF), "3,0"),
        4 | 5 => gen_40(r),
        6 | 7 => gen_50(r),
        8 | 9 => gen_60(r),
        10 => (r.bits(56), "random"),
        _ => (0, "all-zero"),
    };
    let df = if r.chance(1, 2) { 20 } else { 21 };
    let f = if df == 20 {
        df20(addr, r.bits(14) as u32, enc_ac13_q1(25 * (40 + r.below(1500) as i32)), mb)
    } else {
        df21(addr, r.bits(14) as u32, r.bits(13) as u32, mb)
    };
    Fr { kind: Kind::CommB { df, mb, what }, hex: f.hex() }
}

fn make_history(r: &mut Rng, addr: u32) -> (History, Vec<Fr>) {
    let mut frs: Vec<Fr> = Vec::new();
    // the row is created by a capability-carrying or plain surveillance frame
    let n = 3 + r.below(8);
    for k in 0..n {
        let fr = if k == 0 {
            match r.below(3) {
                0 => {
                    let ca = *r.pick(&[0u32, 3, 4, 5, 7]);
                    Fr { kind: Kind::Df11(ca), hex: df11(addr, ca, 0).hex() }
                }
                1 => {
                    let ca = *r.pick(&[0u32, 3, 4, 5, 7]);
                    Fr { kind: Kind::Df17Ca(ca), hex: df17(addr, ca, me_opstatus(0, r.bits(16) as u32, r.bits(16) as u32, 2, 0)).hex() }
                }
                _ => {
                    let ca = *r.pick(&[4u32, 5, 6, 7]);
                    Fr { kind: Kind::Df11(ca), hex: df11(addr, ca, 0).hex() }
                }
            }
        } else {
            match r.below(8) {
                0 => {
                    let ca = *r.pick(&[0u32, 1, 3, 4, 5, 6, 7]);
                    Fr { kind: Kind::Df11(ca), hex: df11(addr, ca, 0).hex() }
                }
                1 => {
                    let ca = *r.pick(&[0u32, 3, 4, 5, 7]);
                    Fr { kind: Kind::Df17Ca(ca), hex: df17(addr, ca, me_opstatus(0, r.bits(16) as u32, r.bits(16) as u32, 2, 0)).hex() }
                }
                _ => gen_commb(r, addr),
            }
        };
        frs.push(fr);
    }
    let steps = frs.iter().map(|f| Step { shift: 0.0, lines: vec![f.hex.clone()] }).collect();
    (History { addrs: vec![addr], steps }, frs)
}

pub const PARAMS: [&str; 13] = [
    "ais",
    "threat_encounter",
    "selected_altitude",
    "barometric_pressure_setting",
    "roll_angle",
    "track",
    "track_angle_rate",
    "grspeed",
    "true_airspeed",
    "heading",
    "indicated_airspeed",
    "mach_number",
    "vrate",
];

pub fn reg_params(reg: Reg) -> &'static [&'static str] {
    match reg {
        Reg::B20 => &["ais"],
        Reg::B30 => &["threat_encounter"],
        Reg::B40 => &["selected_altitude", "barometric_pressure_setting"],
        Reg::B50 => &["roll_angle", "track", "track_angle_rate", "grspeed", "true_airspeed"],
        Reg::B60 => &["heading", "indicated_airspeed", "mach_number", "vrate"],
        Reg::B17 => &[],
    }
}

/// Is the value of `param` in `row` an accepted rendering of register `reg` decoded from `mb`?
/// `allow_blank`: a blank is tolerated when the raw value field is zero / implausible.
pub fn param_ok(reg: Reg, mb: u64, param: &str, row: &Row, allow_blank: bool) -> bool {
    let blank_u = |x: Option<u32>, zero: bool| x.is_none() && allow_blank && zero;
    match (reg, param) {
        (Reg::B20, "ais") => {
            let want = ref_callsign(mb & 0xFFFF_FFFF_FFFF);
            row.ais.as_deref() == Some(want.as_str()) || (want.is_empty() && row.ais.is_none())
        }
        (Reg::B30, "threat_encounter") => {
            let (ara, mte) = threat_30(mb);
            row.threat_encounter.is_some() == (ara || mte)
        }
        (Reg::B40, "selected_altitude") => {
            let v = dec_40(mb);
            row.selected_altitude == Some(v.mcp) || row.selected_altitude == Some(v.fms) || blank_u(row.selected_altitude, g(mb, 2, 13) == 0 || g(mb, 15, 26) == 0)
        }
        (Reg::B40, "barometric_pressure_setting") => {
            let v = dec_40(mb);
            row.barometric_pressure_setting == Some(v.baro) || blank_u(row.barometric_pressure_setting, g(mb, 28, 39) == 0)
        }
        (Reg::B50, p) => {
            let v = dec_50(mb);
            match p {
                "roll_angle" => row.roll_angle == Some(v.roll.0) || row.roll_angle == Some(v.roll.1),
                "track" => row.track == Some(v.track.0) || row.track == Some(v.track.1) || row.track == Some(v.track.0 % 360),
                "track_angle_rate" => row.track_angle_rate == Some(v.tar.0) || row.track_angle_rate == Some(v.tar.1),
                "grspeed" => row.grspeed == Some(v.gs),
                "true_airspeed" => row.true_airspeed == Some(v.tas),
                _ => false,
            }
        }
        (Reg::B60, p) => {
            let v = dec_60(mb);
            match p {
                "heading" => row.heading == Some(v.hdg.0) || row.heading == Some(v.hdg.1),
                "indicated_airspeed" => row.indicated_airspeed == Some(v.ias),
                "mach_number" => row.machf().is_some_and(|m| (m - v.mach).abs() < 1e-9),
                "vrate" => {
                    row.vrate == Some(v.baro_rate)
                        || row.vrate == Some(v.inertial_rate)
                        || (row.vrate.is_none() && allow_blank && (g(mb, 37, 45) == 0 || g(mb, 48, 56) == 0))
                }
                _ => false,
            }
        }
        _ => false,
    }
}

/// all fields of a row rendered once (Row::fields allocates ~50 strings)
pub struct Rendered(pub Vec<(&'static str, String)>);
impl Rendered {
    pub fn of(row: &Row) -> Rendered {
        Rendered(row.fields())
    }
    pub fn get(&self, name: &str) -> &str {
        self.0.iter().find(|(k, _)| *k == name).map(|(_, v)| v.as_str()).unwrap_or("")
    }
}

/// gating knowledge accumulated along a history
#[derive(Clone, Debug, Default)]
pub struct Gate {
    pub cap_weak: bool,
    pub cap_all_ge4: bool,
    pub seen_df11_ge4: bool,
    pub adv_weak: [bool; 3],   // 4,0 5,0 6,0
    pub adv_strong: [bool; 3],
}

impl Gate {
    pub fn new() -> Gate {
        Gate { cap_weak: false, cap_all_ge4: true, seen_df11_ge4: false, adv_weak: [false; 3], adv_strong: [false; 3] }
    }
    pub fn possible(&self, o: &Opts) -> bool {
        o.r || self.cap_weak
    }
    pub fn strong(&self, o: &Opts) -> bool {
        o.r || (self.cap_all_ge4 && self.seen_df11_ge4)
    }
    pub fn capability_frame(&mut self, is_df11: bool, ca: u32) {
        if ca >= 4 {
            self.cap_weak = true;
            if is_df11 {
                self.seen_df11_ge4 = true;
            }
        } else {
            self.cap_all_ge4 = false;
        }
    }
    /// bookkeeping for a DF20/21 reply (call *after* judging the frame)
    pub fn commb_frame(&mut self, o: &Opts, mb: u64) {
        for (i, reg) in [Reg::B40, Reg::B50, Reg::B60].iter().enumerate() {
            if weak_advertises(mb, *reg) {
                self.adv_weak[i] = true;
            }
        }
        if weak_17(mb) && !is_20(mb) && !is_30(mb) && self.possible(o) {
            if self.strong(o) && strong_17(mb) {
                for (i, reg) in [Reg::B40, Reg::B50, Reg::B60].iter().enumerate() {
                    self.adv_strong[i] = weak_advertises(mb, *reg);
                }
            } else {
                self.adv_strong = [false; 3];
            }
        }
    }
    fn idx(reg: Reg) -> Option<usize> {
        match reg {
            Reg::B40 => Some(0),
            Reg::B50 => Some(1),
            Reg::B60 => Some(2),
            _ => None,
        }
    }
    pub fn adv_possible(&self, o: &Opts, reg: Reg) -> bool {
        match Gate::idx(reg) {
            Some(i) => o.r || self.adv_weak[i],
            None => true,
        }
    }
    pub fn adv_sure(&self, o: &Opts, reg: Reg) -> bool {
        match Gate::idx(reg) {
            Some(i) => o.r || self.adv_strong[i],
            None => true,
        }
    }
}

pub fn weak_valid(reg: Reg, mb: u64) -> bool {
    match reg {
        Reg::B20 => is_20(mb),
        Reg::B30 => is_30(mb),
        Reg::B40 => weak_40(mb),
        Reg::B50 => weak_50(mb),
        Reg::B60 => weak_60(mb),
        Reg::B17 => weak_17(mb),
    }
}

/// register the statement *requires* to be decoded (strong preconditions, unambiguous), if any
pub fn required_register(mb: u64) -> Option<Reg> {
    if is_20(mb) || is_30(mb) || weak_17(mb) {
        return None;
    }
    if strong_40(mb) {
        return Some(Reg::B40);
    }
    if weak_40(mb) {
        return None;
    }
    if strong_50(mb) {
        return Some(Reg::B50);
    }
    if weak_50(mb) {
        return None;
    }
    if strong_60(mb) {
        return Some(Reg::B60);
    }
    None
}

/// Judge one DF20/21 frame applied to an existing row. Returns Err((class, message, expectations)).
pub fn judge_commb(opts: &Opts, gate: &Gate, mb: u64, before: &Row, after: &Row) -> Result<Option<Reg>, (String, String, Vec<String>)> {
    let (rb, ra) = (Rendered::of(before), Rendered::of(after));
    let field = |which: &Row, name: &str| -> String {
        if std::ptr::eq(which, before) { rb.get(name).to_string() } else { ra.get(name).to_string() }
    };
    let addr = before.icao;
    let changed: Vec<&str> = PARAMS.iter().copied().filter(|p| rb.get(p) != ra.get(p)).collect();
    // ---- the advertisement record itself: what the aircraft is recorded to advertise (and with it the gating of every
    // later reply) may change only on an MB field that has the shape of a BDS 1,7 report under every reading
    // (2,0 bit set, bits 29..56 zero). A data register mistaken for a 1,7 report silently closes or opens gates.
    if (rb.get("cap_bds") != ra.get("cap_bds") || rb.get("cap_flags") != ra.get("cap_flags")) && !weak_17(mb) {
        return Err((
            "commb-advertisement-changed-by-non-report".into(),
            format!(
                "MB {:014X} is not a BDS 1,7 report (needs bit 7 set and bits 29..56 zero) but the recorded advertisement changed: cap_bds {} -> {}, cap_flags {} -> {}",
                mb,
                field(before, "cap_bds"),
                field(after, "cap_bds"),
                field(before, "cap_flags"),
                field(after, "cap_flags")
            ),
            vec![format!("expect {:06X} cap_bds {}", addr, field(before, "cap_bds")), format!("expect {:06X} cap_flags {}", addr, field(before, "cap_flags"))],
        ));
    }
    // ---- "only if"
    if !changed.is_empty() {
        let mut explained = None;
        let mut reasons = Vec::new();
        for reg in [Reg::B20, Reg::B30, Reg::B40, Reg::B50, Reg::B60] {
            let ps = reg_params(reg);
            if !changed.iter().all(|c| ps.contains(c)) {
                continue;
            }
            if !weak_valid(reg, mb) {
                reasons.push(format!("{:?}: MB lacks its status bits / has reserved bits set", reg));
                continue;
            }
            if !gate.possible(opts) {
                reasons.push(format!("{:?}: no capability >= 4 recorded and no -R", reg));
                continue;
            }
            if !gate.adv_possible(opts, reg) {
                reasons.push(format!("{:?}: never advertised by a BDS 1,7 report and no -R", reg));
                continue;
            }
            if let Some(bad) = changed.iter().find(|c| !param_ok(reg, mb, c, after, true)) {
                reasons.push(format!("{:?}: {} = {} is not its Doc 9871 decoding", reg, bad, field(after, bad)));
                continue;
            }
            explained = Some(reg);
            break;
        }
        if explained.is_none() {
            let exps = changed.iter().map(|c| format!("expect {:06X} {} {}", addr, c, field(before, c))).collect();
            return Err((
                "commb-unjustified-change".into(),
                format!(
                    "parameters {:?} changed ({}) but no register justifies it: {}",
                    changed,
                    changed.iter().map(|c| format!("{}: {} -> {}", c, field(before, c), field(after, c))).collect::<Vec<_>>().join(", "),
                    reasons.join("; ")
                ),
                exps,
            ));
        }
    }
    // ---- "if"
    if let Some(reg) = required_register(mb) {
        if gate.strong(opts) && gate.adv_sure(opts, reg) {
            let bad: Vec<&str> = reg_params(reg).iter().copied().filter(|p| !param_ok(reg, mb, p, after, false)).collect();
            if !bad.is_empty() {
                let exps = bad.iter().map(|p| format!("note {} must show the decoding of {:?}; observed {}", p, reg, field(after, p))).collect();
                return Err((
                    format!("commb-not-decoded-{:?}", reg),
                    format!(
                        "gating open, register {:?} advertised, all status bits set, values non-zero and plausible, yet {} not decoded: {}",
                        reg,
                        bad.join(","),
                        bad.iter().map(|p| format!("{} = {}", p, field(after, p))).collect::<Vec<_>>().join(", ")
                    ),
                    exps,
                ));
            }
            return Ok(Some(reg));
        }
    }
    Ok(None)
}

pub fn run(ctx: &Ctx) -> Vec<Report> {
    let mut rep = Report::new("C10", "commb-gating");
    let mut r = ctx.rng("c10");
    let total = ctx.share(ctx.n(160_000, 5_000_000));
    let batch = 4096usize;
    let mut done = 0u64;
    let mut bno = 0;
    while done < total {
        let opts = Opts::ur(bno % 2 == 1, bno % 4 >= 2);
        bno += 1;
        let n = batch.min((total - done) as usize);
        let mut used = HashSet::new();
        let mut hs = Vec::new();
        let mut frs = Vec::new();
        for _ in 0..n {
            let addr = loop {
                let a = r.addr();
                if used.insert(a) {
                    break a;
                }
            };
            let (h, f) = make_history(&mut r, addr);
            hs.push(h);
            frs.push(f);
        }
        let mut st = LsStats::default();
        let outs = run_lockstep(&opts, &hs, &mut st);
        rep.count("segments", st.segments as i64);
        rep.count("lines_fed", st.lines as i64);
        for (i, o) in outs.iter().enumerate() {
            judge_history(&mut rep, &opts, &hs[i], &frs[i], o);
        }
        done += n as u64;
    }
    vec![rep]
}

fn judge_history(rep: &mut Report, opts: &Opts, h: &History, frs: &[Fr], o: &HistOut) {
    let addr = h.addrs[0];
    if let Some((k, p)) = &o.panic {
        rep.panic(&crate::batch::panic_loc(p));
        let mut sc = history_script(opts, None, h, *k);
        sc.push("expect-nopanic".into());
        rep.violation("panic", format!("{:06X} step {}", addr, k), p.clone(), sc);
        return;
    }
    let mut gate = Gate::new();
    for (k, ob) in o.obs.iter().enumerate() {
        match &frs[k].kind {
            Kind::Df11(ca) => gate.capability_frame(true, *ca),
            Kind::Df17Ca(ca) => gate.capability_frame(false, *ca),
            Kind::CommB { df, mb, what } => {
                let (Some(before), Some(after)) = (ob.before[0].as_ref(), ob.after[0].as_ref()) else {
                    gate.commb_frame(opts, *mb);
                    continue;
                };
                let key = format!("{}|{}", opts.describe(), h.steps[..=k].iter().map(|s| s.lines[0].as_str()).collect::<Vec<_>>().join(","));
                let req = required_register(*mb);
                let res = judge_commb(opts, &gate, *mb, before, after);
                let (rb, ra) = (Rendered::of(before), Rendered::of(after));
                let field = |which: &Row, name: &str| -> String {
                    if std::ptr::eq(which, before) { rb.get(name).to_string() } else { ra.get(name).to_string() }
                };
                let changed_any = PARAMS.iter().any(|p| rb.get(p) != ra.get(p));
                // non-trivial: a decode was required (ignoring the frame fails) or the MB field is register-shaped
                // while gating is closed / the register invalid (applying it fails)
                let nontrivial = matches!(res, Ok(Some(_))) || (!weak_candidates(*mb).is_empty()) || changed_any;
                rep.eval(if nontrivial { Some(key.as_bytes()) } else { None });
                rep.class(&format!(
                    "{}:df{}:{}:gate{}{}:{}",
                    opts.describe(),
                    df,
                    what,
                    if gate.strong(opts) { "S" } else if gate.possible(opts) { "P" } else { "C" },
                    match req {
                        Some(rg) => format!(":req{:?}{}", rg, if gate.adv_sure(opts, rg) { "adv" } else { "" }),
                        None => String::new(),
                    },
                    if changed_any { "changed" } else { "same" }
                ));
                if rep.want_sample() && rep.evaluations % 1777 == 5 {
                    rep.sample(
                        J::obj()
                            .with("history", J::arr_s(&h.steps[..=k].iter().map(|s| s.lines[0].clone()).collect::<Vec<_>>()))
                            .with("kinds", J::arr_s(&frs[..=k].iter().map(|f| format!("{:?}", f.kind).chars().take(60).collect::<String>()).collect::<Vec<_>>()))
                            .with("options", J::s(opts.describe()))
                            .with("gate", J::s(format!("{:?}", gate)))
                            .with("required_register", J::s(format!("{:?}", req)))
                            .with("changed", J::arr_s(&PARAMS.iter().copied().filter(|p| field(before, p) != field(after, p)).map(|p| format!("{}: {} -> {}", p, field(before, p), field(after, p))).collect::<Vec<_>>())),
                    );
                }
                if let Err((class, msg, exps)) = res {
                    let mut sc = history_script(opts, None, h, k);
                    sc.insert(sc.len() - 1, format!("show {:06X}", addr));
                    sc.push("expect-nopanic".into());
                    sc.extend(exps);
                    sc.push(format!("show {:06X}", addr));
                    rep.violation(&class, format!("{} mb={:014X} {}", what, mb, key), format!("{} | MB {:014X} ({}) | history {:?}", msg, mb, what, frs[..=k].iter().map(|f| f.hex.clone()).collect::<Vec<_>>()), sc);
                    return;
                }
                gate.commb_frame(opts, *mb);
            }
        }
    }
}
