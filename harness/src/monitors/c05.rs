//! C05 – barometric altitude equals the Mode S altitude-code decoding.
//! Exhaustive over all AC13 codes (DF4, DF20) and all AC12 codes x TC 9..18 (DF17),
//! each as first frame and as update of an existing row, with and without -U / -R.

use crate::batch::{Case, panic_loc, run_batch};
use crate::drive::Opts;
use crate::fgen::*;
use crate::json::J;
use crate::refmodel::codes::*;
use crate::refmodel::frames::Frame;
use crate::replay::{opts_line, seg_line};
use crate::report::Report;
use crate::rng::Rng;
use crate::Ctx;
use std::collections::HashSet;

pub const PREV_ALT: u32 = 77_777; // never produced by any altitude code (not a multiple of 25)

#[derive(Clone, Copy, Debug)]
struct Spec {
    fmt: u32, // 4, 20, 17
    tc: u32,  // for DF17
    code: u32,
    update: bool,
}

pub fn load_gillham(dir: &str) -> Option<Vec<Option<u32>>> {
    let s = std::fs::read_to_string(format!("{}/gillham_observed.txt", dir)).ok()?;
    let mut t = vec![None; 8192];
    let mut n = 0;
    for l in s.lines() {
        if l.starts_with('#') || l.trim().is_empty() {
            continue;
        }
        let mut it = l.split_whitespace();
        let i: usize = it.next()?.parse().ok()?;
        let v = it.next()?;
        t[i] = if v == "-" { None } else { Some(v.parse().ok()?) };
        n += 1;
    }
    if n == 8192 { Some(t) } else { None }
}

fn build_frame(r: &mut Rng, s: &Spec, addr: u32) -> Frame {
    match s.fmt {
        4 => df4(addr, r.bits(14) as u32, s.code),
        20 => df20(addr, r.bits(14) as u32, s.code, r.bits(56)),
        _ => df17(
            addr,
            r.below(8) as u32,
            me_airpos(s.tc, r.below(4) as u32, r.bits(1) as u32, s.code, r.bits(1) as u32, r.bits(1) as u32, r.bits(17) as u32, r.bits(17) as u32),
        ),
    }
}

pub fn run(ctx: &Ctx) -> Vec<Report> {
    let mut rep = Report::new("C05", "altitude-code");
    let gillham = load_gillham(&ctx.known_dir);
    if gillham.is_none() {
        rep.count("gillham_known_table_missing", 1);
    }
    let mut r = ctx.rng("c05");
    let fillers = ctx.n(1, 12);
    // enumerate specs
    let mut specs: Vec<Spec> = Vec::new();
    for update in [false, true] {
        for code in 0..8192u32 {
            specs.push(Spec { fmt: 4, tc: 0, code, update });
            specs.push(Spec { fmt: 20, tc: 0, code, update });
        }
        for tc in 9..=18u32 {
            for code in 0..4096u32 {
                specs.push(Spec { fmt: 17, tc, code, update });
            }
        }
    }
    let option_sets = [(false, false), (true, false), (false, true), (true, true)];
    let mut case_no = 0u64;
    for rep_no in 0..fillers {
        for (oi, (u, rr)) in option_sets.iter().enumerate() {
            let opts = Opts::ur(*u, *rr);
            // -R variants only matter for DF20; skip them for the others to save time
            let mut cases: Vec<Case> = Vec::new();
            let mut meta: Vec<(Spec, Frame)> = Vec::new();
            let mut used: HashSet<u32> = HashSet::new();
            let flush = |cases: &mut Vec<Case>, meta: &mut Vec<(Spec, Frame)>, rep: &mut Report, used: &mut HashSet<u32>| {
                if cases.is_empty() {
                    return;
                }
                let mut stats = (0u64, 0u64);
                let upd: Vec<bool> = meta.iter().map(|m| m.0.update).collect();
                let preset = move |i: usize, p: &mut squitterator::Plane| {
                    if upd[i] {
                        p.altitude = Some(PREV_ALT);
                    }
                };
                let outs = run_batch(&opts, cases, Some(&preset), &mut stats);
                rep.count("segments", stats.0 as i64);
                rep.count("lines_fed", stats.1 as i64);
                for (i, o) in outs.iter().enumerate() {
                    judge(rep, &opts, &meta[i].0, &meta[i].1, &cases[i], o, gillham.as_deref());
                }
                cases.clear();
                meta.clear();
                used.clear();
            };
            for s in specs.iter() {
                if *rr && s.fmt != 20 {
                    continue;
                }
                case_no += 1;
                if !ctx.mine(case_no) {
                    continue;
                }
                let addr = loop {
                    let a = r.addr();
                    if used.insert(a) {
                        break a;
                    }
                };
                let f = build_frame(&mut r, s, addr);
                let prefix = if s.update { vec![df11(addr, r.below(8) as u32, 0).hex()] } else { vec![] };
                cases.push(Case { addr, prefix, test: vec![f.hex()] });
                meta.push((*s, f));
                if cases.len() >= 4096 {
                    flush(&mut cases, &mut meta, &mut rep, &mut used);
                }
            }
            flush(&mut cases, &mut meta, &mut rep, &mut used);
            let _ = (oi, rep_no);
        }
    }
    rep.exhaustive.push("all 8192 AC13 codes in DF4 and DF20, all 4096 AC12 codes for each TC 9..18, each as creating frame and as update, default and -U (DF20 also -R)".into());
    vec![rep]
}

fn judge(
    rep: &mut Report,
    opts: &Opts,
    s: &Spec,
    f: &Frame,
    case: &Case,
    o: &crate::batch::CaseOut,
    gillham: Option<&[Option<u32>]>,
) {
    let exp = if s.fmt == 17 { ref_ac12(s.code) } else { ref_ac13(s.code) };
    let ctxname = format!(
        "df{}{}:{}:{}",
        s.fmt,
        if s.fmt == 17 { format!("/tc{}", s.tc) } else { String::new() },
        if s.update { "update" } else { "create" },
        opts.describe()
    );
    if exp == AltExp::Unconstrained {
        rep.count("metric_codes_not_judged", 1);
        return;
    }
    // nontrivial: expected value differs from pre-state (always: PREV_ALT or blank) or forbidden effect differs
    let key = format!("{}:{}", ctxname, f.hex());
    rep.eval(Some(key.as_bytes()));
    let qclass = if (if s.fmt == 17 { ac12_to_ac13(s.code) } else { s.code }) >> 4 & 1 == 1 { "q1" } else { "q0" };
    rep.class(&format!("{}:{}", ctxname, qclass));
    let script = |alts: &str| -> Vec<String> {
        let mut v = vec![opts_line(opts, None)];
        if !case.prefix.is_empty() {
            v.push(seg_line(&case.prefix));
            v.push(format!("note the monitor then plants altitude {} into the row (previous value)", PREV_ALT));
        }
        v.push(seg_line(&case.test));
        v.push("expect-nopanic".into());
        v.push(format!("expect {:06X} altitude {}", case.addr, alts));
        v
    };
    if let Some(p) = &o.panic {
        rep.panic(&panic_loc(p));
        rep.violation("panic", key.clone(), format!("{} -> {}", f.hex(), p), script("(any)"));
        return;
    }
    let Some(after) = &o.after else {
        rep.violation("row-missing", key.clone(), format!("{}: no row for {:06X} after the frame", f.hex(), case.addr), script("(any)"));
        return;
    };
    let prev = if s.update { Some(PREV_ALT) } else { None };
    let creating_commb = s.fmt == 20 && !s.update;
    let ok = match exp {
        AltExp::Value(v) => after.altitude == Some(v) || (creating_commb && after.altitude.is_none()),
        AltExp::NoValue => after.altitude.is_none() || (s.update && after.altitude == prev),
        AltExp::Unconstrained => true,
    };
    if rep.want_sample() && rep.evaluations % 977 == 1 {
        rep.sample(
            J::obj()
                .with("frame", J::s(f.hex()))
                .with("context", J::s(&ctxname))
                .with("altitude_code", J::s(format!("{:013b}", s.code)))
                .with("expected", J::s(format!("{:?}", exp)))
                .with("observed_altitude", J::s(format!("{:?}", after.altitude)))
                .with("previous", J::s(format!("{:?}", prev))),
        );
    }
    if ok {
        return;
    }
    let alts = match exp {
        AltExp::Value(v) => format!("Some({})", v),
        _ => {
            if s.update {
                format!("None||Some({})", PREV_ALT)
            } else {
                "None".into()
            }
        }
    };
    let field13 = if s.fmt == 17 { ac12_to_ac13(s.code) } else { s.code };
    let q0 = (field13 >> 4) & 1 == 0;
    // known finding: Gillham decoding. Signature = the output of the repository's gray-code routine
    // for the 13 bits it actually reads (AC13 for DF4/20; address bits 20..32 for DF17).
    if q0 {
        if let Some(g) = gillham {
            let seen = if s.fmt == 17 { case.addr & 0x1FFF } else { s.code };
            let gv = g[seen as usize];
            if after.altitude == gv || (gv.is_none() && s.update && after.altitude == prev) {
                rep.known(
                    "C05-gillham",
                    format!(
                        "DF{} frame {} altitude code {:013b} (Q=0): expected {:?}, observed {:?}",
                        s.fmt, f.hex(), field13, exp, after.altitude
                    ),
                );
                return;
            }
        }
    }
    rep.violation(
        if q0 { "alt-q0" } else { "alt-q1" },
        key,
        format!(
            "{} [{}]: altitude code {:013b} requires {:?}, observed {:?} (row before: {:?})",
            f.hex(),
            ctxname,
            field13,
            exp,
            after.altitude,
            o.before.as_ref().map(|b| b.altitude)
        ),
        script(&alts),
    );
}

/// `sqmon gillham-table`: dump what the current tree produces for the 13 bits its gray-code routine
/// reads (used once to write known/gillham_observed.txt).
pub fn dump_gillham_table() -> String {
    let mut out = String::from("# index = bits 20..32 of the frame as read by the repository's Gillham routine; value = altitude it yields for a Q=0 code ('-' = none)\n");
    let opts = Opts::default();
    let mut cases = Vec::new();
    for p in 0..8192u32 {
        let addr = 0xABE000 | p; // high bits fixed, low 13 bits = pattern
        let f = df17(addr, 5, me_airpos(11, 0, 0, 0b0000_0000_0010, 0, 0, 1000, 1000)); // AC12 with Q=0, not all-zero
        cases.push(Case { addr, prefix: vec![], test: vec![f.hex()] });
    }
    let mut stats = (0, 0);
    let outs = run_batch(&opts, &cases, None, &mut stats);
    for (p, o) in outs.iter().enumerate() {
        let v = o.after.as_ref().and_then(|r| r.altitude);
        out.push_str(&format!("{} {}\n", p, v.map(|x| x.to_string()).unwrap_or("-".into())));
    }
    out
}
