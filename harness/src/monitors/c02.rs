//! C02 – a line is a frame iff its hex digits form a 56/112-bit frame of matching DF.
//! Differential: table(lines under test) == table(canonical renderings of exactly the
//! lines the reference accepts), on identically preloaded tables.

use crate::drive::{Opts, Table, diff_tables};
use crate::fgen::*;
use crate::json::J;
use crate::refmodel::codes::*;
use crate::refmodel::frames::*;
use crate::replay::{esc_line, opts_line, seg_line, seg_line_bytes};
use crate::report::Report;
use crate::rng::Rng;
use crate::Ctx;
use std::collections::HashSet;

struct Case {
    line: Vec<u8>,
    digits: Vec<u8>,
    kind: &'static str,
    /// address used to build the base frame (for attribution of differences)
    addr: u32,
    preload: bool,
}

fn visible_frame(r: &mut Rng, df: u32, addr: u32) -> Frame {
    // content chosen to differ from a row created by DF11/CA0
    match df {
        0 => df0(addr, r.bits(14) as u32, enc_ac13_q1(12000)),
        4 => df4(addr, r.bits(14) as u32, enc_ac13_q1(25 * (40 + r.below(1500) as i32))),
        5 => df5(addr, r.bits(14) as u32, 1 + r.below(8191) as u32),
        11 => df11(addr, 4 + r.below(4) as u32, 0),
        16 => df16(addr, r.bits(14) as u32, enc_ac13_q1(9000), r.bits(56)),
        17 => df17(addr, 5, me_ident(4, 1 + r.below(5) as u32, enc_callsign(&rand_callsign_codes(r)))),
        18 => df18(addr, 2, me_ident(3, 2, enc_callsign(&rand_callsign_codes(r)))),
        20 => df20(addr, 0, enc_ac13_q1(25 * (40 + r.below(1500) as i32)), r.bits(56)),
        21 => df21(addr, 0, 1 + r.below(8191) as u32, r.bits(56)),
        d => {
            // other DF values: sealed like an AP format of the length given by the DF
            build(d, addr, r.bits(27) as u32, r.bits(56), 0)
        }
    }
}

fn fresh_addr(r: &mut Rng, used: &mut HashSet<u32>) -> u32 {
    loop {
        let a = r.addr();
        if used.insert(a) {
            return a;
        }
    }
}

const DECOS: [&[u8]; 14] = [b" ", b"*", b"@", b";", b"\r", b"\t", b":", b"-", b"g", b"Z", b"\x00", "é".as_bytes(), "→".as_bytes(), b"x"];

fn hexdigit(r: &mut Rng) -> u8 {
    b"0123456789ABCDEF"[r.below(16) as usize]
}

fn gen_cases(ctx: &Ctx, r: &mut Rng) -> Vec<Case> {
    let mut cases = Vec::new();
    let mut used = HashSet::new();
    let reps = ctx.n(1, 12);
    let preloadable = |df: u32| !matches!(df, 0 | 16 | 18);
    // (a) digit-count grid: 0..=64 digits x with/without prefix x nine formats
    for _ in 0..reps {
        for &df in FORMATS.iter() {
            for n in 0..=64usize {
                for prefixed in [false, true] {
                    let a = fresh_addr(r, &mut used);
                    let f = visible_frame(r, df, a);
                    let mut d: Vec<u8> = Vec::new();
                    if prefixed {
                        for _ in 0..12 {
                            d.push(hexdigit(r));
                        }
                    }
                    d.extend(f.hex().bytes());
                    while d.len() < n {
                        d.push(hexdigit(r));
                    }
                    d.truncate(n);
                    cases.push(Case { line: d.clone(), digits: d, kind: "digit-count", addr: a, preload: preloadable(df) && r.chance(1, 2) });
                }
            }
        }
    }
    // (b) DF x length grid: every DF value forced against both lengths, with/without prefix
    for _ in 0..reps * 4 {
        for d in 0..32u32 {
            for len in [56u32, 112] {
                for prefixed in [false, true] {
                    let a = fresh_addr(r, &mut used);
                    let donor = if len == 56 { 4 } else { 20 };
                    let mut f = if frame_len(d) == len { visible_frame(r, d, a) } else { visible_frame(r, donor, a) };
                    if frame_len(d) != len {
                        // force the DF field and re-seal as the *claimed* format would be sealed
                        f.set(1, 5, d as u64);
                        match d {
                            17 | 18 => {
                                f.set(9, 32.min(len), a as u64);
                                f.seal(0)
                            }
                            11 => {
                                f.set(9, 32, a as u64);
                                f.seal(0)
                            }
                            _ => f.seal(a),
                        }
                    }
                    let mut dg: Vec<u8> = Vec::new();
                    if prefixed {
                        for _ in 0..12 {
                            dg.push(hexdigit(r));
                        }
                    }
                    dg.extend(f.hex().bytes());
                    cases.push(Case { line: dg.clone(), digits: dg, kind: "df-length", addr: a, preload: r.chance(1, 2) });
                }
            }
        }
    }
    // (c) decoration / letter case: every insertion position
    let formats_c: Vec<u32> = FORMATS.to_vec();
    for &df in formats_c.iter() {
        for prefixed in [false, true] {
            if ctx.quick() && prefixed && df != 17 && df != 4 {
                continue;
            }
            let base_digits = |r: &mut Rng, used: &mut HashSet<u32>| -> (Vec<u8>, u32) {
                let a = fresh_addr(r, used);
                let f = visible_frame(r, df, a);
                let mut d: Vec<u8> = Vec::new();
                if prefixed {
                    for _ in 0..12 {
                        d.push(hexdigit(r));
                    }
                }
                d.extend(f.hex().bytes());
                (d, a)
            };
            let (d0, _) = base_digits(r, &mut used);
            let ndec = if ctx.quick() { 6 } else { DECOS.len() };
            for pos in 0..=d0.len() {
                for k in 0..ndec {
                    let (d, a) = base_digits(r, &mut used);
                    let deco = DECOS[(k + pos) % DECOS.len()];
                    let mut line = d[..pos].to_vec();
                    line.extend_from_slice(deco);
                    line.extend_from_slice(&d[pos..]);
                    cases.push(Case { line, digits: d, kind: "decoration-1", addr: a, preload: preloadable(df) && r.chance(1, 2) });
                }
            }
            // every ASCII byte that is not a hex digit (control characters included) as a single decoration: none of
            // them is a hex digit, so the digit sequence - and the verdict - must be that of the bare line
            if !prefixed || !ctx.quick() {
                for b in 1u8..=0x7F {
                    if b == b'\n' || b.is_ascii_hexdigit() {
                        continue;
                    }
                    for which in 0..3 {
                        let (d, a) = base_digits(r, &mut used);
                        let pos = match which {
                            0 => 0,
                            1 => d.len(),
                            _ => 1 + r.below(d.len() as u64 - 1) as usize,
                        };
                        let mut line = d[..pos].to_vec();
                        line.push(b);
                        line.extend_from_slice(&d[pos..]);
                        cases.push(Case { line, digits: d, kind: "decoration-ascii-byte", addr: a, preload: preloadable(df) && r.chance(1, 2) });
                    }
                }
            }
            // letter case and multi-decoration
            let nmulti = ctx.n(20, 400);
            for _ in 0..nmulti {
                let (d, a) = base_digits(r, &mut used);
                let mut line = Vec::new();
                for &c in &d {
                    if r.chance(1, 3) {
                        let deco = DECOS[r.below(DECOS.len() as u64) as usize];
                        line.extend_from_slice(deco);
                    }
                    line.push(if r.chance(1, 2) { c.to_ascii_lowercase() } else { c });
                }
                if r.chance(1, 2) {
                    line.extend_from_slice(b";\r");
                }
                if r.chance(1, 3) {
                    line.insert(0, b'*');
                }
                cases.push(Case { line, digits: d, kind: "decoration-multi", addr: a, preload: preloadable(df) && r.chance(1, 2) });
            }
        }
    }
    cases
}

fn judge_chunk(rep: &mut Report, opts: &Opts, cases: &[&Case]) {
    let preload: Vec<String> = cases.iter().filter(|c| c.preload).map(|c| df11(c.addr, 0, 0).hex()).collect();
    let mut t1 = Table::new();
    let mut t2 = Table::new();
    let _ = t1.run(opts, &preload);
    let _ = t2.run(opts, &preload);
    let mut under_test: Vec<u8> = Vec::new();
    let mut canon: Vec<String> = Vec::new();
    let mut verdicts: Vec<Option<Frame>> = Vec::new();
    for c in cases {
        under_test.extend_from_slice(&c.line);
        under_test.push(b'\n');
        let acc = ref_accept(&c.digits);
        // frames of formats the properties do not cover are "frames" but their effect is unconstrained
        if let Some(f) = &acc {
            if !FORMATS.contains(&f.df()) {
                verdicts.push(None);
                rep.count("accepted_but_uncovered_format_not_judged", 1);
                // keep the line out of both streams: rebuild under_test without it
                let l = c.line.len() + 1;
                under_test.truncate(under_test.len() - l);
                continue;
            }
            canon.push(f.hex());
        }
        verdicts.push(acc);
        let nontrivial = true; // accepted: effect required; rejected: forbidden effect (row creation/change) differs from pre-state
        rep.eval(if nontrivial { Some(&c.line) } else { None });
        rep.class(&format!("{}:{}", c.kind, if acc.is_some() { "frame" } else { "not-a-frame" }));
    }
    let r1 = t1.run_bytes(opts, &under_test);
    let r2 = t2.run(opts, &canon);
    rep.count("lines_fed", cases.len() as i64);
    rep.count("segment_pairs", 1);
    if r2.is_err() {
        rep.inconclusive(format!("canonical stream failed: {:?}", r2));
    }
    let diffs = if r1.is_err() { vec![format!("{:?}", r1)] } else { diff_tables(&t2.snapshot(), &t1.snapshot(), 1) };
    if rep.want_sample() {
        let c = cases[cases.len() / 2];
        rep.sample(
            J::obj()
                .with("line", J::s(esc_line(&c.line)))
                .with("hex_digits", J::i(c.digits.len() as u64))
                .with("kind", J::s(c.kind))
                .with("reference_takes_as_frame", J::Bool(ref_accept(&c.digits).is_some()))
                .with("tables_equal_in_chunk", J::Bool(diffs.is_empty()))
                .with("options", J::s(opts.describe())),
        );
    }
    if diffs.is_empty() {
        return;
    }
    // slow path: each case alone
    let mut found = 0u32;
    for c in cases {
        let acc = ref_accept(&c.digits);
        if acc.is_some_and(|f| !FORMATS.contains(&f.df())) {
            continue;
        }
        let pre: Vec<String> = if c.preload { vec![df11(c.addr, 0, 0).hex()] } else { vec![] };
        let mut a = Table::new();
        let mut b = Table::new();
        let _ = a.run(opts, &pre);
        let _ = b.run(opts, &pre);
        let mut l = c.line.clone();
        l.push(b'\n');
        let ra = a.run_bytes(opts, &l);
        let canon: Vec<String> = acc.iter().map(|f| f.hex()).collect();
        let _ = b.run(opts, &canon);
        let d = if ra.is_err() { vec![format!("{:?}", ra)] } else { diff_tables(&b.snapshot(), &a.snapshot(), 3) };
        if d.is_empty() {
            continue;
        }
        found += 1;
        let class = if ra.is_err() {
            "panic"
        } else if acc.is_none() {
            "non-frame-changed-table"
        } else {
            "frame-rendering-differs"
        };
        let mut script = vec![opts_line(opts, None)];
        if !pre.is_empty() {
            script.push(seg_line(&pre));
        }
        script.push(seg_line_bytes(&[c.line.clone()]));
        script.push("expect-nopanic".into());
        let want = b.snapshot();
        for (k, row) in &want {
            for (n, v) in row.unstamped().fields() {
                if n == "timestamp" || n == "cpr_time" || n.ends_with("_timestamp") {
                    continue;
                }
                script.push(format!("expect {:06X} {} {}", k, n, v));
            }
        }
        for k in a.keys() {
            if !want.contains_key(&k) {
                script.push(format!("expect-absent {:06X}", k));
            }
        }
        let df_claimed = c
            .digits
            .get(if matches!(c.digits.len(), 26 | 40) { 12 } else { 0 }..)
            .and_then(|d| if d.len() >= 2 { std::str::from_utf8(&d[..2]).ok() } else { None })
            .and_then(|s| u32::from_str_radix(s, 16).ok())
            .map(|b| b >> 3);
        rep.violation(
            class,
            format!("{} digits={} df={:?} {}", c.kind, c.digits.len(), df_claimed, esc_line(&c.line)),
            format!(
                "line {:?} ({} hex digits, claimed DF {:?}): reference {}; observed vs expected table: {}",
                esc_line(&c.line),
                c.digits.len(),
                df_claimed,
                match acc {
                    Some(f) => format!("takes it as frame {}", f.hex()),
                    None => "does not take it as a frame".to_string(),
                },
                d.join(" | ")
            ),
            script,
        );
        if let Err(crate::drive::RunErr::Panic(p)) = &ra {
            rep.panic(&crate::batch::panic_loc(p));
        }
        if found >= 400 {
            rep.count("slow_path_truncated", 1);
            break;
        }
    }
    if found == 0 {
        rep.violation(
            "chunk-differs",
            "chunk".into(),
            format!("tables differ for the chunk but for no single line: {}", diffs.join(" | ")),
            vec![opts_line(opts, None), seg_line(&preload), format!("note {} lines under test", cases.len())],
        );
    }
}

pub fn run(ctx: &Ctx) -> Vec<Report> {
    let mut rep = Report::new("C02", "line-acceptance");
    // the case list is generated identically on every shard, then partitioned
    let mut r = Rng::derive(ctx.seed, "c02", 0);
    let cases = gen_cases(ctx, &mut r);
    let mine: Vec<&Case> = cases.iter().enumerate().filter(|(i, _)| ctx.mine(*i as u64 / 64)).map(|(_, c)| c).collect();
    for (ci, chunk) in mine.chunks(1500).enumerate() {
        let opts = Opts::ur(ci % 2 == 1, false);
        judge_chunk(&mut rep, &opts, chunk);
    }
    rep.exhaustive.push("digit count 0..64 x nine formats x with/without 12-digit prefix; DF 0..31 x both lengths x prefix; single decoration at every position".into());
    vec![rep]
}
