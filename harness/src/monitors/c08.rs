//! C08 – airborne position is the correct global CPR decode or is left unchanged.
//! Lock-step histories: [optional earlier fix] – frame A – silence – frame B [– silence – frame C].
//! The truth is known because the frames come from the reference encoder.

use crate::drive::{Opts, Row};
use crate::fgen::*;
use crate::json::J;
use crate::lockstep::*;
use crate::refmodel::codes::*;
use crate::refmodel::cpr::{self, Global};
use crate::report::Report;
use crate::rng::Rng;
use crate::Ctx;
use std::collections::HashSet;

#[derive(Clone, Debug)]
struct PosFrame {
    parity: u32,
    lat: f64,
    lon: f64,
    cpr: (u32, u32),
    hex: String,
}

#[derive(Clone, Debug)]
struct Plan {
    /// per step: the airborne-position frame of that step (None for the optional "earlier fix" step,
    /// which carries two frames)
    frames: Vec<Option<PosFrame>>,
    /// simulated silence before each step
    gaps: Vec<f64>,
    earlier_fix: Option<(f64, f64)>,
    fix_frames: Option<(PosFrame, PosFrame)>,
    zero_field: bool,
}

fn latitudes(r: &mut Rng) -> f64 {
    let b = cpr::nl_boundaries();
    let sign = if r.chance(1, 2) { -1.0 } else { 1.0 };
    match r.below(10) {
        0..=3 => {
            // both sides of an NL boundary
            let bb = b[r.below(b.len() as u64) as usize];
            let off = *r.pick(&[1e-4, 1e-3, 0.05, 0.002, 0.01]);
            let side = if r.chance(1, 2) { -1.0 } else { 1.0 };
            sign * (bb + side * off).min(86.95)
        }
        4 => sign * r.f64() * 0.01,          // equator
        5 => sign * (86.0 + r.f64() * 0.95), // near the 87 degree limit
        _ => sign * r.f64() * 86.9,
    }
}
fn longitudes(r: &mut Rng) -> f64 {
    match r.below(8) {
        0 => 180.0 - r.f64() * 0.01,
        1 => -180.0 + r.f64() * 0.01,
        2 => r.f64() * 0.01 - 0.005,
        _ => r.f64() * 360.0 - 180.0,
    }
}

fn pos_frame(r: &mut Rng, addr: u32, parity: u32, lat: f64, lon: f64) -> PosFrame {
    let c = cpr::encode(lat, lon, parity);
    let tc = 9 + r.below(10) as u32;
    let alt = 25 * (40 + r.below(1500) as i32);
    let f = df17(addr, r.below(8) as u32, me_airpos(tc, r.below(4) as u32, r.bits(1) as u32, enc_ac12_q1(alt), r.bits(1) as u32, parity, c.0, c.1));
    PosFrame { parity, lat, lon, cpr: c, hex: f.hex() }
}

fn displaced(r: &mut Rng, lat: f64, lon: f64, max_m: f64) -> (f64, f64) {
    let d = r.f64() * max_m;
    let b = r.f64() * std::f64::consts::TAU;
    let nlat = (lat + d * b.cos() / 111_320.0).clamp(-86.99, 86.99);
    let mut nlon = lon + d * b.sin() / (111_320.0 * lat.to_radians().cos().max(0.05));
    if nlon >= 180.0 {
        nlon -= 360.0;
    }
    if nlon < -180.0 {
        nlon += 360.0;
    }
    (nlat, nlon)
}

const GAPS: [f64; 11] = [0.0, 1.0, 5.0, 9.0, 9.5, 9.8, 10.0, 10.1, 10.5, 11.0, 60.0];

fn make_history(r: &mut Rng, addr: u32) -> (History, Plan) {
    let mut steps = Vec::new();
    let mut frames = Vec::new();
    let mut gaps = Vec::new();
    let lat = latitudes(r);
    let lon = longitudes(r);
    let mut earlier_fix = None;
    let mut fix_frames = None;
    if r.chance(1, 2) {
        // an earlier valid fix somewhere else, long ago
        let (la, lo) = (r.f64() * 100.0 - 50.0, r.f64() * 300.0 - 150.0);
        let e = pos_frame(r, addr, 0, la, lo);
        let o = pos_frame(r, addr, 1, la, lo);
        steps.push(Step { shift: 0.0, lines: vec![e.hex.clone(), o.hex.clone()] });
        fix_frames = Some((e, o));
        frames.push(None);
        gaps.push(0.0);
        earlier_fix = Some((la, lo));
    }
    let zero_field = r.chance(1, 12);
    let p0 = r.bits(1) as u32;
    let n = if r.chance(1, 3) { 3 } else { 2 };
    let (mut la, mut lo) = (lat, lon);
    for k in 0..n {
        let parity = if k % 2 == 0 { p0 } else { 1 - p0 };
        let mut pf = pos_frame(r, addr, parity, la, lo);
        if zero_field && k == 0 {
            // a position whose CPR latitude field is exactly 0 (a multiple of the zone height)
            let dlat = 360.0 / (60.0 - parity as f64);
            let mut zl = (la / dlat).round() * dlat;
            if zl.abs() > 86.0 {
                zl -= dlat * zl.signum();
            }
            pf = pos_frame(r, addr, parity, zl, lo);
        }
        let mut lines = Vec::new();
        // other frames of the same aircraft interleaved
        if r.chance(1, 2) {
            for _ in 0..r.below(3) {
                let g = match r.below(5) {
                    0 => df17(addr, 5, me_ident(4, 2, enc_callsign(&rand_callsign_codes(r)))),
                    1 => df17(addr, 5, rand_vel(r, 1).me()),
                    2 => df4(addr, 0, enc_ac13_q1(12000)),
                    3 => df5(addr, 0, r.bits(13) as u32),
                    _ => df11(addr, 5, 0),
                };
                lines.push(g.hex());
            }
        }
        lines.push(pf.hex.clone());
        let gap = if k == 0 { if earlier_fix.is_some() { 100.0 } else { 0.0 } } else { *r.pick(&GAPS) };
        steps.push(Step { shift: gap, lines });
        frames.push(Some(pf));
        gaps.push(gap);
        let d = displaced(r, la, lo, 300.0);
        la = d.0;
        lo = d.1;
    }
    (History { addrs: vec![addr], steps }, Plan { frames, gaps, earlier_fix, fix_frames, zero_field })
}

fn observer_strings(r: &mut Rng) -> (String, (f64, f64)) {
    let la = (r.f64() * 160.0 - 80.0 * 1.0).round() / 1.0 + (r.below(1000) as f64) / 1000.0;
    let lo = (r.f64() * 340.0 - 170.0).round() + (r.below(1000) as f64) / 1000.0;
    let (sl, so) = (format!("{}", la), format!("{}", lo));
    let s = match r.below(5) {
        0 => format!("{},{}", sl, so),
        1 => format!("{}, {}", sl, so),
        2 => format!(" {} , {} ", sl, so),
        3 => format!("{} ,{}", sl, so),
        _ => format!("  {},   {}", sl, so),
    };
    (s, (sl.parse().unwrap(), so.parse().unwrap()))
}

pub fn run(ctx: &Ctx) -> Vec<Report> {
    let mut rep = Report::new("C08", "cpr-position");
    let mut r = ctx.rng("c08");
    let total = ctx.share(ctx.n(48_000, 3_000_000));
    let batch = 1024usize;
    let mut done = 0u64;
    let mut batch_no = 0;
    let mut observer: Option<(String, (f64, f64))> = None;
    while done < total {
        // first batch of the process runs without an observer (the global cannot be unset later)
        if batch_no > 1 {
            let o = observer_strings(&mut r);
            squitterator::set_observer_coords_from_str(&o.0);
            observer = Some(o);
        }
        let opts = Opts::ur(batch_no % 2 == 1, false);
        batch_no += 1;
        let mut used = HashSet::new();
        let mut hs = Vec::new();
        let mut plans = Vec::new();
        let n = batch.min((total - done) as usize);
        for _ in 0..n {
            let addr = loop {
                let a = r.addr();
                if used.insert(a) {
                    break a;
                }
            };
            let (h, p) = make_history(&mut r, addr);
            hs.push(h);
            plans.push(p);
        }
        let mut st = LsStats::default();
        let outs = run_lockstep(&opts, &hs, &mut st);
        rep.count("segments", st.segments as i64);
        rep.count("lines_fed", st.lines as i64);
        for (i, o) in outs.iter().enumerate() {
            judge(&mut rep, &opts, observer.as_ref(), &hs[i], &plans[i], o, st.max_pair_wall);
        }
        done += n as u64;
    }
    vec![rep]
}

fn near(a: f64, b: f64) -> bool {
    (a - b).abs() <= 1e-9 * a.abs().max(b.abs()).max(1.0)
}

fn judge(rep: &mut Report, opts: &Opts, observer: Option<&(String, (f64, f64))>, h: &History, plan: &Plan, o: &HistOut, pair_wall: f64) {
    let addr = h.addrs[0];
    let obs_str = observer.map(|x| x.0.as_str());
    if let Some((k, p)) = &o.panic {
        rep.panic(&crate::batch::panic_loc(p));
        let mut sc = history_script(opts, obs_str, h, *k);
        sc.push("expect-nopanic".into());
        rep.violation("panic", format!("{:06X} step {}", addr, k), p.clone(), sc);
        return;
    }
    // slot model: latest frame of each parity with its (virtual) receive time
    let mut clock = 0.0f64;
    let mut slot: [Option<(f64, &PosFrame)>; 2] = [None, None];
    for (k, ob) in o.obs.iter().enumerate() {
        clock += plan.gaps[k];
        let before: Option<&Row> = ob.before[0].as_ref();
        let Some(after) = ob.after[0].as_ref() else {
            rep.violation("row-missing", format!("{:06X} step {}", addr, k), "row absent after a DF17 frame".into(), history_script(opts, obs_str, h, k));
            return;
        };
        let Some(pf) = plan.frames[k].as_ref() else {
            // earlier-fix step: two frames at the same place, same instant: must decode
            let (la, lo) = plan.earlier_fix.unwrap();
            let d = cpr::haversine_km(la, lo, after.latf(), after.lonf());
            // the pair is only required to decode when it is a valid pair by the statement: no CPR field of 0
            // ("not received"), and both frames in the same latitude zone (a random latitude lands within one CPR
            // quantum of an NL boundary about once in 10^5 cases; thorough runs reach that)
            let decodable = match plan.fix_frames.as_ref() {
                Some((e, od)) => {
                    let zero = e.cpr.0 == 0 || e.cpr.1 == 0 || od.cpr.0 == 0 || od.cpr.1 == 0;
                    let (g, rl) = cpr::global_decode([e.cpr.0, od.cpr.0], [e.cpr.1, od.cpr.1], 1);
                    !zero && matches!(g, Global::Pos(_, _)) && cpr::nl_boundary_distance(rl[0]) > 1e-4 && cpr::nl_boundary_distance(rl[1]) > 1e-4 && cpr::nl_boundary_distance(la) > 1e-4
                }
                None => false,
            };
            if !decodable {
                rep.class("earlier-fix-not-a-valid-pair(not judged)");
                if let Some((e, od)) = plan.fix_frames.as_ref() {
                    slot[0] = Some((clock, e));
                    slot[1] = Some((clock, od));
                }
                continue;
            }
            rep.eval(Some(format!("fix:{}", h.steps[k].lines.join(",")).as_bytes()));
            rep.class("earlier-fix");
            if !(d < 0.02) {
                let mut sc = history_script(opts, obs_str, h, k);
                sc.push(format!("expect-near {:06X} {} {} 0.02", addr, la, lo));
                rep.violation("position", format!("{:06X} fix", addr), format!("even+odd pair at ({:.6},{:.6}) decoded to ({:.6},{:.6}), {:.3} km away", la, lo, after.latf(), after.lonf(), d), sc);
                return;
            }
            if let Some((e, od)) = plan.fix_frames.as_ref() {
                slot[0] = Some((clock, e));
                slot[1] = Some((clock, od));
            }
            continue;
        };
        let zero = pf.cpr.0 == 0 || pf.cpr.1 == 0;
        if !zero {
            slot[pf.parity as usize] = Some((clock, pf));
        } else {
            // a zero field counts as not received; what happens to an older frame of the same parity is
            // not judged (both "slot emptied" and "older frame kept" readings are accepted)
            slot[pf.parity as usize] = None;
        }
        let other = slot[1 - pf.parity as usize];
        // expectation
        #[derive(Debug, PartialEq)]
        enum Exp {
            Unchanged,
            Decode(f64, f64),
            Either(f64, f64),
        }
        let mut why = String::new();
        let exp = if zero {
            why = "CPR field is 0 (not received)".into();
            Exp::Unchanged
        } else {
            match other {
                None => {
                    why = "no frame of the other parity".into();
                    Exp::Unchanged
                }
                Some((t_other, of)) => {
                    let gap = clock - t_other; // simulated silence; real time adds at most pair_wall
                    let (e, od) = if pf.parity == 0 { (pf, of) } else { (of, pf) };
                    let (g, rl) = cpr::global_decode([e.cpr.0, od.cpr.0], [e.cpr.1, od.cpr.1], pf.parity);
                    let near_boundary = cpr::nl_boundary_distance(rl[0]) < 1e-6 || cpr::nl_boundary_distance(rl[1]) < 1e-6;
                    if gap >= 10.0 {
                        why = format!("frames {} s apart", gap);
                        Exp::Unchanged
                    } else if gap + pair_wall + 0.05 >= 10.0 {
                        rep.inconclusive(format!("gap {} s + wall {:.3} s too close to the 10 s limit", gap, pair_wall));
                        return;
                    } else {
                        match g {
                            Global::Straddle => {
                                why = "pair straddles two latitude zones".into();
                                if near_boundary { return } else { Exp::Unchanged }
                            }
                            Global::Pos(la, lo) => {
                                if cpr::haversine_km(la, lo, pf.lat, pf.lon) > 0.02 {
                                    rep.inconclusive("reference decode further than 20 m from the truth".into());
                                    return;
                                }
                                why = format!("valid pair, {} s apart", gap);
                                if near_boundary { Exp::Either(pf.lat, pf.lon) } else { Exp::Decode(pf.lat, pf.lon) }
                            }
                        }
                    }
                }
            }
        };
        let key = format!("{}:{}:{}", opts.describe(), h.steps[..=k].iter().map(|s| s.lines.join(",")).collect::<Vec<_>>().join("/"), plan.gaps[k]);
        let unchanged = before.map(|b| (b.lat, b.lon, b.distance_from_observer)).unwrap_or((0f64.to_bits(), 0f64.to_bits(), None))
            == (after.lat, after.lon, after.distance_from_observer);
        let nontrivial = !matches!(exp, Exp::Unchanged) || other.is_some() || zero;
        rep.eval(if nontrivial { Some(key.as_bytes()) } else { None });
        rep.class(&format!(
            "{}:{}:{}",
            opts.describe(),
            match &exp {
                Exp::Unchanged => format!("unchanged({})", why.split(' ').next().unwrap_or("")),
                Exp::Decode(..) => "decode".into(),
                Exp::Either(..) => "boundary".into(),
            },
            if observer.is_some() { "obs" } else { "noobs" }
        ));
        let decode_ok = |la: f64, lo: f64| -> Result<(), String> {
            let (ola, olo) = (after.latf(), after.lonf());
            if !(-90.0..=90.0).contains(&ola) || !(-180.0..=180.0).contains(&olo) {
                return Err(format!("position out of range ({}, {})", ola, olo));
            }
            let d = cpr::haversine_km(la, lo, ola, olo);
            if !(d < 0.02) {
                return Err(format!("shown ({:.6},{:.6}) is {:.3} km from the encoded position ({:.6},{:.6})", ola, olo, d, la, lo));
            }
            match (observer, after.distf()) {
                (Some((_, (bla, blo))), Some(dist)) => {
                    let want = cpr::haversine_km(ola, olo, *bla, *blo);
                    if !near(dist, want) {
                        return Err(format!("distance {} but great-circle distance to observer ({},{}) is {}", dist, bla, blo, want));
                    }
                }
                (Some(_), None) => return Err("observer configured but distance blank after a decode".into()),
                (None, Some(d)) => return Err(format!("no observer configured but distance {}", d)),
                (None, None) => {}
            }
            Ok(())
        };
        let verdict: Result<(), String> = match &exp {
            Exp::Unchanged => {
                if unchanged { Ok(()) } else { Err(format!("position must stay as it was ({})", why)) }
            }
            Exp::Decode(la, lo) => decode_ok(*la, *lo),
            Exp::Either(la, lo) => {
                if unchanged { Ok(()) } else { decode_ok(*la, *lo) }
            }
        };
        if rep.want_sample() && rep.evaluations % 997 == 3 {
            rep.sample(
                J::obj()
                    .with("history", J::arr_s(&h.steps[..=k].iter().map(|s| format!("+{}s {}", s.shift, s.lines.join(","))).collect::<Vec<_>>()))
                    .with("newest_frame_encodes", J::s(format!("({:.6},{:.6}) parity {}", pf.lat, pf.lon, pf.parity)))
                    .with("expected", J::s(format!("{:?} ({})", exp, why)))
                    .with("observed", J::s(format!("({:.6},{:.6}) dist {:?}", after.latf(), after.lonf(), after.distf())))
                    .with("observer", J::s(obs_str.unwrap_or("none")))
                    .with("options", J::s(opts.describe())),
            );
        }
        if let Err(e) = verdict {
            let mut sc = history_script(opts, obs_str, h, k);
            sc.push("expect-nopanic".into());
            match &exp {
                Exp::Unchanged => {
                    let b = before.cloned();
                    let f = |x: Option<u64>| f64::from_bits(x.unwrap_or(0));
                    sc.push(format!("expect {:06X} lat {:?}", addr, f(b.as_ref().map(|r| r.lat))));
                    sc.push(format!("expect {:06X} lon {:?}", addr, f(b.as_ref().map(|r| r.lon))));
                }
                Exp::Decode(la, lo) | Exp::Either(la, lo) => {
                    sc.push(format!("note expected position within 20 m of ({}, {}) and distance = haversine to the observer", la, lo));
                    sc.push(format!("show {:06X}", addr));
                    sc.push(format!("expect-near {:06X} {} {} 0.02", addr, la, lo));
                }
            }
            let class = match &exp {
                Exp::Unchanged => {
                    if why.starts_with("frames") {
                        "position-from-stale-pair"
                    } else if why.starts_with("pair straddles") {
                        "position-from-straddling-pair"
                    } else {
                        "position-changed-without-pair"
                    }
                }
                _ => {
                    if e.starts_with("distance") || e.contains("observer") { "distance" } else { "position" }
                }
            };
            rep.violation(class, format!("{:06X} step {} gap {}", addr, k, plan.gaps[k]), format!("{} | history {:?} | observed ({:.6},{:.6}) dist {:?} | before ({:?})", e, h.steps[..=k].iter().map(|s| format!("+{}s {}", s.shift, s.lines.join(","))).collect::<Vec<_>>(), after.latf(), after.lonf(), after.distf(), before.map(|b| (b.latf(), b.lonf()))), sc);
            return;
        }
    }
    let _ = plan.zero_field;
}
