//! C18 – TCP feed interruptions never stop decoding or lose the table.
//!
//! The built CLI runs under `strace -f -tt -e trace=connect,clock_nanosleep` against a loopback
//! fault server living in this process. A case is a script over
//! {refuse, accept+close, accept+frames+close, accept+frames+partial line+RST, accept+junk+close}
//! followed by a healthy connection that delivers new frames and stays open.
//!
//! Events observed: every `connect()` of the decoder with its result and time stamp (strace), the
//! pauses it requests (strace), every connection the server accepted and the bytes it delivered
//! (server log), process liveness at every step, and the refresh blocks on the decoder's stdout.
//!
//! Oracle (bounded restatement of the liveness claim, DESIGN.md section 3 C18):
//!  * the process is alive at every step and at the end;
//!  * after a refused attempt the next attempt comes no sooner than 4 s later, exactly one attempt
//!    per pause, and the requested pause (when visible as clock_nanosleep) is 4..7 s;
//!  * once a listener is up the decoder connects within 5 s + slack (a missed bound with attempts
//!    visible in strace is inconclusive, with no attempt at all it is a violation);
//!  * after the healthy frames the last refresh equals (ages masked) the last refresh of the same
//!    decoder binary reading the same delivered bytes from a file, each connection's partial last
//!    line terminated by a newline: nothing learned earlier is lost, and a partial line - also one
//!    that the next connection's first bytes would complete - has no effect of its own.

use super::cli::{refreshes, rich_stream, scratch, CLEAR};
use crate::fgen::*;
use crate::json::J;
use crate::refmodel::codes::*;
use crate::report::Report;
use crate::rng::Rng;
use crate::Ctx;
use std::io::Write;
use std::net::{TcpListener, TcpStream};
use std::os::fd::AsRawFd;
use std::os::unix::process::CommandExt;
use std::process::{Child, Command, Stdio};
use std::time::{Duration, Instant};

#[derive(Clone, Debug, PartialEq)]
pub enum Phase {
    Refuse,
    AcceptClose,
    FramesClose(Vec<Vec<u8>>),
    /// complete lines, then a partial line (no newline), then RST
    PartialReset(Vec<Vec<u8>>, Vec<u8>),
    Junk(Vec<u8>),
}

impl Phase {
    fn letter(&self) -> char {
        match self {
            Phase::Refuse => 'R',
            Phase::AcceptClose => 'C',
            Phase::FramesClose(_) => 'F',
            Phase::PartialReset(_, _) => 'P',
            Phase::Junk(_) => 'J',
        }
    }
}

#[repr(C)]
struct Linger {
    l_onoff: i32,
    l_linger: i32,
}
unsafe extern "C" {
    fn setsockopt(fd: i32, level: i32, name: i32, val: *const core::ffi::c_void, len: u32) -> i32;
    fn kill(pid: i32, sig: i32) -> i32;
}
fn set_linger0(s: &TcpStream) {
    let l = Linger { l_onoff: 1, l_linger: 0 };
    // SOL_SOCKET = 1, SO_LINGER = 13 on Linux
    unsafe {
        setsockopt(s.as_raw_fd(), 1, 13, &l as *const Linger as *const core::ffi::c_void, 8);
    }
}

#[derive(Debug, Clone)]
struct Conn {
    t: f64,
    ok: bool,
    err: String,
}
#[derive(Debug, Clone)]
struct Sleep {
    t: f64,
    secs: f64,
}

fn tod(s: &str) -> Option<f64> {
    // HH:MM:SS.uuuuuu
    let p: Vec<&str> = s.split(':').collect();
    if p.len() != 3 {
        return None;
    }
    Some(p[0].parse::<f64>().ok()? * 3600.0 + p[1].parse::<f64>().ok()? * 60.0 + p[2].parse::<f64>().ok()?)
}

/// parse the strace log into connect attempts to `port` and requested sleeps, in log order
fn parse_strace(text: &str, port: u16) -> (Vec<Conn>, Vec<Sleep>) {
    let mut conns = Vec::new();
    let mut sleeps = Vec::new();
    let needle = format!("htons({})", port);
    // unfinished connect calls per pid
    let mut pending: std::collections::HashMap<String, f64> = std::collections::HashMap::new();
    for l in text.lines() {
        let l = l.trim_start();
        let Some((pid, after)) = l.split_once(' ') else { continue };
        let after = after.trim_start();
        let Some((ts, rest)) = after.split_once(' ') else { continue };
        let Some(t) = tod(ts) else { continue };
        let rest = rest.trim_start();
        if rest.starts_with("connect(") {
            if !rest.contains(&needle) {
                continue;
            }
            if rest.contains("<unfinished") {
                pending.insert(pid.to_string(), t);
                continue;
            }
            let ok = rest.contains("= 0");
            let err = rest.rsplit("= ").next().unwrap_or("").to_string();
            conns.push(Conn { t, ok, err });
        } else if rest.starts_with("<... connect resumed>") {
            if let Some(t0) = pending.remove(pid) {
                let ok = rest.contains("= 0");
                let err = rest.rsplit("= ").next().unwrap_or("").to_string();
                conns.push(Conn { t: t0, ok, err });
            }
        } else if rest.starts_with("clock_nanosleep(") || rest.starts_with("nanosleep(") {
            // requested duration: first {tv_sec=N, tv_nsec=M}
            if let Some(i) = rest.find("tv_sec=") {
                let a = &rest[i + 7..];
                let secs: f64 = a.split(|c: char| !c.is_ascii_digit()).next().and_then(|x| x.parse().ok()).unwrap_or(0.0);
                let ns: f64 = a.find("tv_nsec=").map(|j| &a[j + 8..]).and_then(|b| b.split(|c: char| !c.is_ascii_digit()).next().and_then(|x| x.parse().ok())).unwrap_or(0.0);
                sleeps.push(Sleep { t, secs: secs + ns / 1e9 });
            }
        }
    }
    (conns, sleeps)
}

pub struct Case {
    /// bytes for the file reference run when they differ from the delivered bytes (C13 over TCP: the clean stream)
    pub reference_bytes: Option<Vec<u8>>,
    /// seconds an accepted connection is kept open (idle) before the phase's fault happens
    pub holds: Vec<f64>,
    pub phases: Vec<Phase>,
    pub healthy: Vec<Vec<u8>>,
    pub opts: Vec<String>,
}

/// the bytes a file must hold to be "the same input": every connection's bytes, a partial last
/// line terminated by a newline
fn file_equivalent(c: &Case) -> Vec<u8> {
    let mut b = Vec::new();
    let put = |b: &mut Vec<u8>, ls: &Vec<Vec<u8>>| {
        for l in ls {
            b.extend_from_slice(l);
            b.push(b'\n');
        }
    };
    for p in &c.phases {
        match p {
            Phase::Refuse | Phase::AcceptClose => {}
            Phase::FramesClose(ls) => put(&mut b, ls),
            Phase::PartialReset(ls, part) => {
                put(&mut b, ls);
                b.extend_from_slice(part);
                b.push(b'\n');
            }
            Phase::Junk(j) => {
                b.extend_from_slice(j);
                if j.last() != Some(&b'\n') {
                    b.push(b'\n');
                }
            }
        }
    }
    put(&mut b, &c.healthy);
    b
}

fn mask_block(block: &str) -> String {
    // ages (PTH, LC) depend on wall-clock. They are the last two columns (3 + 1 + 2 characters,
    // right-aligned at the end of the row); rows may be shifted against the header when a cell
    // overflows its column, so the mask is anchored at the end of the row, not at header positions.
    let mut out = Vec::new();
    for l in block.split('\n') {
        let cs: Vec<char> = l.chars().collect();
        let is_row = cs.len() >= 6 && cs[..6].iter().all(|c| c.is_ascii_hexdigit()) && cs.get(6) == Some(&' ');
        if is_row && cs.len() > 12 {
            let keep: String = cs[..cs.len() - 6].iter().collect();
            out.push(format!("{}######", keep));
        } else {
            out.push(l.trim_end().to_string());
        }
    }
    out.join("\n")
}

fn last_complete_block(stdout: &[u8]) -> Option<String> {
    // a block is complete when it ends with the separator line (or counter line) + newline; the
    // block being written may be cut anywhere, so only blocks followed by another clear-screen
    // sequence, or a final block whose last line is the separator, are used
    let bs: Vec<String> = refreshes(stdout).into_iter().filter(|b| b.trim_start().starts_with("ICAO")).collect();
    let n = bs.len();
    if n == 0 {
        return None;
    }
    let last = &bs[n - 1];
    let ls: Vec<&str> = last.split('\n').collect();
    if ls.len() >= 4 && ls[ls.len() - 1].is_empty() && ls[ls.len() - 2] == ls[1] && ls[1].starts_with('-') {
        return Some(last.clone());
    }
    if n >= 2 { Some(bs[n - 2].clone()) } else { None }
}

struct Run {
    child: Child,
    so: String,
    se: String,
    st: String,
    t0: Instant,
}

impl Run {
    fn alive(&mut self) -> Result<(), String> {
        match self.child.try_wait() {
            Ok(None) => Ok(()),
            Ok(Some(st)) => Err(format!("decoder process ended: {:?}; stderr {:?}", st, std::fs::read_to_string(&self.se).unwrap_or_default().chars().take(300).collect::<String>())),
            Err(e) => Err(format!("try_wait: {}", e)),
        }
    }
    fn strace(&self, port: u16) -> (Vec<Conn>, Vec<Sleep>) {
        parse_strace(&std::fs::read_to_string(&self.st).unwrap_or_default(), port)
    }
    fn stdout(&self) -> Vec<u8> {
        std::fs::read(&self.so).unwrap_or_default()
    }
    fn finish(self) {
        drop(self);
    }
}

impl Drop for Run {
    fn drop(&mut self) {
        // strace and the traced decoder share a process group of their own: killing strace alone
        // would leave the decoder running (and reconnecting to ports of later cases)
        unsafe {
            kill(-(self.child.id() as i32), 9);
        }
        let _ = self.child.kill();
        let _ = self.child.wait();
        for f in [&self.so, &self.se, &self.st] {
            let _ = std::fs::remove_file(f);
        }
    }
}

/// wait until stdout has not grown for `quiet` (and, when `min_growth`, has grown at least once)
fn wait_stdout_stable(run: &Run, from_len: usize, need_growth: bool, quiet: Duration, max: Duration) -> usize {
    let t0 = Instant::now();
    let mut last = run.stdout().len();
    let mut last_change = Instant::now();
    loop {
        std::thread::sleep(Duration::from_millis(25));
        let n = run.stdout().len();
        if n != last {
            last = n;
            last_change = Instant::now();
        }
        let grown = n > from_len;
        if (grown || !need_growth) && last_change.elapsed() >= quiet {
            return n;
        }
        if t0.elapsed() > max {
            return n;
        }
    }
}

fn bind(port: u16) -> Option<TcpListener> {
    for _ in 0..50 {
        match TcpListener::bind(("127.0.0.1", port)) {
            Ok(l) => {
                l.set_nonblocking(true).ok()?;
                return Some(l);
            }
            Err(_) => std::thread::sleep(Duration::from_millis(20)),
        }
    }
    None
}

fn accept_within(l: &TcpListener, max: Duration) -> Option<TcpStream> {
    let t0 = Instant::now();
    loop {
        match l.accept() {
            Ok((s, _)) => {
                s.set_nonblocking(false).ok();
                s.set_nodelay(true).ok();
                return Some(s);
            }
            Err(_) => {
                if t0.elapsed() > max {
                    return None;
                }
                std::thread::sleep(Duration::from_millis(5));
            }
        }
    }
}

pub enum Outcome {
    Held { attempts: usize, refused: usize, sleeps: usize, accepted: usize, rows: usize },
    Violation(String, String),
    Inconclusive(String),
}

const CONNECT_SLACK: f64 = 25.0;

pub fn run_case(cli: &str, port: u16, c: &Case, log: &mut Vec<String>) -> Outcome {
    // reference: the same binary on the same bytes from a file
    let src = scratch("c18-file.txt");
    std::fs::write(&src, c.reference_bytes.clone().unwrap_or_else(|| file_equivalent(c))).expect("scratch");
    let mut fargs: Vec<String> = vec!["-s".into(), src.clone(), "--update=-1".into(), "-d".into(), "600".into()];
    fargs.extend(c.opts.iter().cloned());
    let fr = super::cli::run_cli(cli, &fargs, Duration::from_secs(120), &[]);
    let _ = std::fs::remove_file(&src);
    if !fr.clean_exit() {
        return Outcome::Inconclusive(format!("file reference run failed: {}", fr.describe()));
    }
    let Some(expected) = refreshes(&fr.stdout).last().map(|b| mask_block(b)) else {
        return Outcome::Inconclusive("file reference run printed no refresh".into());
    };
    let rows = expected.lines().count().saturating_sub(3);

    let (so, se, st) = (scratch("c18-out"), scratch("c18-err"), scratch("c18-strace"));
    // the listener of the first accepting phase exists before the decoder starts unless the script begins with a refusal
    let mut listener: Option<TcpListener> = None;
    if c.phases.first() != Some(&Phase::Refuse) {
        listener = bind(port);
        if listener.is_none() {
            return Outcome::Inconclusive(format!("cannot bind port {}", port));
        }
    } else if TcpStream::connect(("127.0.0.1", port)).is_ok() {
        return Outcome::Inconclusive(format!("port {} is in use by someone else", port));
    }
    let mut args: Vec<String> = vec!["-f".into(), "-tt".into(), "-e".into(), "trace=connect,clock_nanosleep,nanosleep".into(), "-o".into(), st.clone(), cli.into()];
    args.extend(["-t".to_string(), format!("127.0.0.1:{}", port), "--update=-1".into(), "-d".into(), "600".into()]);
    args.extend(c.opts.iter().cloned());
    let child = Command::new("strace")
        .args(&args)
        .stdin(Stdio::null())
        .stdout(std::fs::File::create(&so).expect("scratch"))
        .stderr(std::fs::File::create(&se).expect("scratch"))
        .env("RUST_BACKTRACE", "0")
        .process_group(0)
        .spawn();
    let child = match child {
        Ok(c) => c,
        Err(e) => return Outcome::Inconclusive(format!("cannot start strace: {}", e)),
    };
    let mut run = Run { child, so, se, st, t0: Instant::now() };
    let mut accepted = 0usize;
    let mut seen_attempts = 0usize; // connect attempts already consumed by earlier phases
    let mut result: Option<Outcome> = None;

    macro_rules! bail {
        ($o:expr) => {{
            result = Some($o);
            break;
        }};
    }

    let n = c.phases.len();
    let mut idx = 0;
    'phases: loop {
        if idx > n {
            break;
        }
        if let Err(e) = run.alive() {
            bail!(Outcome::Violation("decoder-terminated".into(), format!("before phase {}: {}", idx, e)));
        }
        let phase: Option<&Phase> = c.phases.get(idx);
        let next_is_refuse = c.phases.get(idx + 1) == Some(&Phase::Refuse);
        match phase {
            Some(Phase::Refuse) => {
                // no listener: wait for one more failed attempt to show up in strace
                drop(listener.take());
                let t0 = Instant::now();
                loop {
                    let (conns, _) = run.strace(port);
                    if conns.len() > seen_attempts {
                        let cn = &conns[seen_attempts];
                        log.push(format!("phase {} refuse: attempt #{} at {:.3} -> {}", idx, seen_attempts + 1, cn.t, cn.err));
                        if cn.ok {
                            bail!(Outcome::Inconclusive(format!("a connect to port {} succeeded while no listener of this case existed", port)));
                        }
                        seen_attempts += 1;
                        break;
                    }
                    if let Err(e) = run.alive() {
                        bail!(Outcome::Violation("decoder-terminated".into(), format!("while the peer refused connections (phase {}): {}", idx, e)));
                    }
                    if t0.elapsed().as_secs_f64() > 5.0 + CONNECT_SLACK {
                        bail!(Outcome::Violation("stopped-retrying".into(), format!("no connection attempt within {:.0} s while the peer refuses (phase {}, {} attempts so far)", 5.0 + CONNECT_SLACK, idx, seen_attempts)));
                    }
                    std::thread::sleep(Duration::from_millis(20));
                }
                if result.is_some() {
                    break 'phases;
                }
            }
            other => {
                // an accepting phase (or the healthy connection when other == None)
                if listener.is_none() {
                    listener = bind(port);
                    if listener.is_none() {
                        bail!(Outcome::Inconclusive(format!("cannot bind port {}", port)));
                    }
                }
                let up = Instant::now();
                let Some(mut s) = accept_within(listener.as_ref().unwrap(), Duration::from_secs_f64(5.0 + CONNECT_SLACK)) else {
                    if let Err(e) = run.alive() {
                        bail!(Outcome::Violation("decoder-terminated".into(), format!("while waiting for it to reconnect (phase {}): {}", idx, e)));
                    }
                    let (conns, _) = run.strace(port);
                    if conns.len() <= seen_attempts {
                        bail!(Outcome::Violation("stopped-retrying".into(), format!("listener up for {:.0} s, decoder alive, but strace shows no connection attempt (phase {}, {} earlier attempts)", up.elapsed().as_secs_f64(), idx, seen_attempts)));
                    }
                    bail!(Outcome::Inconclusive(format!("no connection accepted within {:.0} s although strace shows attempts (phase {})", 5.0 + CONNECT_SLACK, idx)));
                };
                accepted += 1;
                seen_attempts = run.strace(port).0.len();
                log.push(format!("phase {} {}: accepted connection #{} after {:.3} s", idx, other.map(|p| p.letter()).unwrap_or('H'), accepted, up.elapsed().as_secs_f64()));
                let before = run.stdout().len();
                let hold = c.holds.get(idx).copied().unwrap_or(0.0);
                let hold_at_start = matches!(other, Some(Phase::AcceptClose) | Some(Phase::Junk(_)));
                if hold > 0.0 && hold_at_start {
                    std::thread::sleep(Duration::from_secs_f64(hold));
                }
                match other {
                    Some(Phase::AcceptClose) => {}
                    Some(Phase::FramesClose(ls)) => {
                        let mut b = Vec::new();
                        for l in ls {
                            b.extend_from_slice(l);
                            b.push(b'\n');
                        }
                        let _ = s.write_all(&b);
                        let _ = s.flush();
                        if hold > 0.0 {
                            // a connection that lives for a while after delivering its frames
                            std::thread::sleep(Duration::from_secs_f64(hold));
                        }
                    }
                    Some(Phase::PartialReset(ls, part)) => {
                        let mut b = Vec::new();
                        for l in ls {
                            b.extend_from_slice(l);
                            b.push(b'\n');
                        }
                        let _ = s.write_all(&b);
                        let _ = s.flush();
                        // let the complete lines be consumed before the reset may discard them
                        wait_stdout_stable(&run, before, !ls.is_empty(), Duration::from_millis(300), Duration::from_secs(10));
                        if hold > 0.0 {
                            std::thread::sleep(Duration::from_secs_f64(hold));
                        }
                        let _ = s.write_all(part);
                        let _ = s.flush();
                        std::thread::sleep(Duration::from_millis(30));
                        set_linger0(&s);
                    }
                    Some(Phase::Junk(j)) => {
                        let _ = s.write_all(j);
                        let _ = s.flush();
                    }
                    Some(Phase::Refuse) => unreachable!(),
                    None => {
                        let mut b = Vec::new();
                        for l in &c.healthy {
                            b.extend_from_slice(l);
                            b.push(b'\n');
                        }
                        let _ = s.write_all(&b);
                        let _ = s.flush();
                        // healthy: stays open; wait for the table
                        let t0 = Instant::now();
                        let mut got;
                        loop {
                            wait_stdout_stable(&run, before, true, Duration::from_millis(200), Duration::from_secs(3));
                            got = last_complete_block(&run.stdout()).map(|b| mask_block(&b));
                            if got.as_deref() == Some(expected.as_str()) {
                                break;
                            }
                            if let Err(e) = run.alive() {
                                bail!(Outcome::Violation("decoder-terminated".into(), format!("on the healthy connection: {}", e)));
                            }
                            if t0.elapsed() > Duration::from_secs(20) {
                                break;
                            }
                        }
                        if result.is_some() {
                            break 'phases;
                        }
                        if got.as_deref() != Some(expected.as_str()) {
                            let g = got.unwrap_or_default();
                            let diff: Vec<String> = {
                                let e: std::collections::BTreeSet<&str> = expected.lines().collect();
                                let o: std::collections::BTreeSet<&str> = g.lines().collect();
                                e.difference(&o).map(|x| format!("missing: {}", x.chars().take(120).collect::<String>())).chain(o.difference(&e).map(|x| format!("extra: {}", x.chars().take(120).collect::<String>()))).take(6).collect()
                            };
                            if std::env::var("C18_DEBUG").is_ok() {
                                eprintln!("EXPECTED\n{}\nGOT\n{}", expected, g);
                            }
                            bail!(Outcome::Violation("table-differs-from-file-run".into(), format!("20 s after the healthy connection delivered {} lines the last refresh differs from the refresh of the same bytes read from a file: {}", c.healthy.len(), diff.join(" | "))));
                        }
                        drop(s);
                        idx += 1;
                        continue 'phases;
                    }
                }
                if next_is_refuse {
                    // close the listener first so that the immediate reconnect is refused
                    drop(listener.take());
                }
                drop(s);
            }
        }
        idx += 1;
    }

    // final liveness + pacing verdict from the strace log
    if result.is_none() {
        if let Err(e) = run.alive() {
            result = Some(Outcome::Violation("decoder-terminated".into(), format!("at the end of the script: {}", e)));
        }
    }
    let (conns, sleeps) = run.strace(port);
    let wall = run.t0.elapsed().as_secs_f64();
    log.push(format!("strace: {} connect attempts ({} failed), {} sleeps {:?}, wall {:.1}s", conns.len(), conns.iter().filter(|c| !c.ok).count(), sleeps.len(), sleeps.iter().map(|s| s.secs).collect::<Vec<_>>(), wall));
    if result.is_none() {
        for i in 0..conns.len() {
            if conns[i].ok || i + 1 >= conns.len() {
                continue;
            }
            let gap = conns[i + 1].t - conns[i].t;
            let gap = if gap < -40000.0 { gap + 86400.0 } else { gap };
            let req: f64 = sleeps.iter().filter(|s| s.t >= conns[i].t - 1e-6 && s.t <= conns[i + 1].t + 1e-6).map(|s| s.secs).sum();
            if gap < 4.0 {
                result = Some(Outcome::Violation("retry-not-paced".into(), format!("attempt #{} failed ({}) and the next attempt followed after {:.3} s (requested pauses in between: {:.3} s); about 5 s required", i + 1, conns[i].err, gap, req)));
                break;
            }
            if req > 7.0 {
                result = Some(Outcome::Violation("retry-pause-too-long".into(), format!("after failed attempt #{} the decoder requested pauses of {:.1} s in total before the next attempt; about 5 s required", i + 1, req)));
                break;
            }
            if gap > 10.0 && req == 0.0 {
                result = Some(Outcome::Inconclusive(format!("gap of {:.1} s after a failed attempt without a visible sleep request", gap)));
                break;
            }
        }
    }
    let out = result.unwrap_or(Outcome::Held { attempts: conns.len(), refused: conns.iter().filter(|c| !c.ok).count(), sleeps: sleeps.len(), accepted, rows });
    run.finish();
    out
}

// ------------------------------------------------------------------ workload

fn frames_for(r: &mut Rng, addrs: &[u32], n: usize) -> Vec<Vec<u8>> {
    let mut v = Vec::new();
    for _ in 0..n {
        let a = *r.pick(addrs);
        v.push(rand_frame(r, a).hex().into_bytes());
    }
    v
}

fn junk(r: &mut Rng) -> Vec<u8> {
    let mut b = Vec::new();
    let n = 1 + r.below(6);
    for _ in 0..n {
        match r.below(5) {
            0 => {
                for _ in 0..r.below(200) {
                    b.push(r.bits(8) as u8);
                }
            }
            1 => b.extend_from_slice(b"\xff\xfe\x80garbage\x00\x01"),
            2 => b.extend_from_slice(b"8D4840D6202CC371C32CE0"), // 22 digits
            3 => b.extend_from_slice("*8D4840D6;täst\r".as_bytes()),
            _ => b.extend_from_slice(b"\r"),
        }
        b.push(b'\n');
    }
    if r.chance(1, 2) {
        // no final newline: 1..12 stray bytes that are not a frame
        for _ in 0..1 + r.below(12) {
            b.push(0x80 | r.bits(7) as u8);
        }
    }
    b
}

/// build a case from phase letters; `split_pairs`: a P phase is followed by a connection whose
/// first line completes the partial line to a valid frame of a fresh address
pub fn build_case(r: &mut Rng, letters: &str) -> Case {
    let na = 2 + r.below(4) as usize;
    let mut addrs: Vec<u32> = (0..na).map(|_| r.addr()).collect();
    let mut phases = Vec::new();
    let mut pending_tail: Option<Vec<u8>> = None;
    let mk_lines = |r: &mut Rng, addrs: &mut Vec<u32>, pending: &mut Option<Vec<u8>>| -> Vec<Vec<u8>> {
        let mut ls = Vec::new();
        if let Some(t) = pending.take() {
            ls.push(t);
        }
        // new aircraft learned on this connection + updates of known ones
        let fresh = r.addr();
        addrs.push(fresh);
        let k = 1 + r.below(2) as usize;
        let mut body = rich_stream(r, k, 0);
        body.extend(super::common::rich_history(r, fresh).iter().map(|f| f.hex().into_bytes()));
        let k = 3 + r.below(10) as usize;
        body.extend(frames_for(r, addrs, k));
        r.shuffle(&mut body);
        ls.extend(body);
        ls
    };
    let mut holds: Vec<f64> = Vec::new();
    for ch in letters.chars() {
        if let Some(d) = ch.to_digit(10) {
            // a digit after a phase letter: the connection of that phase is held open that many seconds (+0.5)
            if let Some(h) = holds.last_mut() {
                *h = d as f64 + 0.5;
            }
            continue;
        }
        holds.push(0.0);
        match ch {
            'R' => phases.push(Phase::Refuse),
            'C' => phases.push(Phase::AcceptClose),
            'F' => {
                let ls = mk_lines(r, &mut addrs, &mut pending_tail);
                phases.push(Phase::FramesClose(ls));
            }
            'P' => {
                let ls = if r.chance(3, 4) { mk_lines(r, &mut addrs, &mut pending_tail) } else { pending_tail.take().into_iter().collect() };
                // the partial line: a proper prefix of a valid identification squitter of a fresh address;
                // the tail goes first on the next data-carrying connection
                let ghost = r.addr();
                let f = df17(ghost, 5, me_ident(4, 3, enc_callsign(&rand_callsign_codes(r)))).hex().into_bytes();
                // cut so that neither half has 14 or 28 hex digits
                let cut = *r.pick(&[1usize, 5, 9, 13, 15, 20, 27]);
                let (head, tail) = f.split_at(cut);
                pending_tail = Some(tail.to_vec());
                phases.push(Phase::PartialReset(ls, head.to_vec()));
            }
            'J' => phases.push(Phase::Junk(junk(r))),
            _ => {}
        }
    }
    let healthy = mk_lines(r, &mut addrs, &mut pending_tail);
    let mut opts = Vec::new();
    if r.chance(1, 3) {
        opts.push("-U".to_string());
    }
    if r.chance(1, 3) {
        opts.push("-R".to_string());
    }
    Case { reference_bytes: None, holds, phases, healthy, opts }
}

fn esc(b: &[u8]) -> String {
    b.iter().map(|c| format!("{:02x}", c)).collect()
}

pub fn case_script(port: u16, letters: &str, c: &Case) -> Vec<String> {
    let mut v = vec![format!("c18 port {}", port), format!("c18 letters {}", letters), format!("c18 opts {}", c.opts.join(" ")), format!("c18 holds {}", c.holds.iter().map(|h| h.to_string()).collect::<Vec<_>>().join(" "))];
    for p in &c.phases {
        match p {
            Phase::Refuse => v.push("c18 phase R".into()),
            Phase::AcceptClose => v.push("c18 phase C".into()),
            Phase::FramesClose(ls) => v.push(format!("c18 phase F {}", ls.iter().map(|l| esc(l)).collect::<Vec<_>>().join(","))),
            Phase::PartialReset(ls, part) => v.push(format!("c18 phase P {};{}", ls.iter().map(|l| esc(l)).collect::<Vec<_>>().join(","), esc(part))),
            Phase::Junk(j) => v.push(format!("c18 phase J {}", esc(j))),
        }
    }
    v.push(format!("c18 healthy {}", c.healthy.iter().map(|l| esc(l)).collect::<Vec<_>>().join(",")));
    if let Some(rb) = &c.reference_bytes {
        v.push(format!("c18 reference {}", esc(rb)));
    }
    v
}

fn unhex(s: &str) -> Vec<u8> {
    (0..s.len() / 2).filter_map(|i| u8::from_str_radix(&s[2 * i..2 * i + 2], 16).ok()).collect()
}
fn unlines(s: &str) -> Vec<Vec<u8>> {
    if s.is_empty() { vec![] } else { s.split(',').map(unhex).collect() }
}

pub fn replay(script: &str) -> (bool, String) {
    let cli = match std::env::var("SQMON_CLI") {
        Ok(c) => c,
        Err(_) => return (true, "SQMON_CLI not set\n".into()),
    };
    let mut port = 21999u16;
    let mut case = Case { reference_bytes: None, holds: vec![], phases: vec![], healthy: vec![], opts: vec![] };
    for l in script.lines() {
        let Some(rest) = l.strip_prefix("c18 ") else { continue };
        if let Some(p) = rest.strip_prefix("port ") {
            port = p.trim().parse().unwrap_or(port);
        } else if let Some(h) = rest.strip_prefix("holds") {
            case.holds = h.split_whitespace().filter_map(|x| x.parse().ok()).collect();
        } else if let Some(o) = rest.strip_prefix("opts") {
            case.opts = o.split_whitespace().map(|s| s.to_string()).collect();
        } else if let Some(p) = rest.strip_prefix("phase ") {
            let (k, arg) = p.split_once(' ').unwrap_or((p, ""));
            match k {
                "R" => case.phases.push(Phase::Refuse),
                "C" => case.phases.push(Phase::AcceptClose),
                "F" => case.phases.push(Phase::FramesClose(unlines(arg))),
                "P" => {
                    let (a, b) = arg.split_once(';').unwrap_or((arg, ""));
                    case.phases.push(Phase::PartialReset(unlines(a), unhex(b)));
                }
                "J" => case.phases.push(Phase::Junk(unhex(arg))),
                _ => {}
            }
        } else if let Some(h) = rest.strip_prefix("healthy ") {
            case.healthy = unlines(h);
        } else if let Some(h) = rest.strip_prefix("reference ") {
            case.reference_bytes = Some(unhex(h));
        }
    }
    let mut log = Vec::new();
    let out = run_case(&cli, port, &case, &mut log);
    let mut text = log.join("\n") + "\n";
    match out {
        Outcome::Held { attempts, refused, sleeps, accepted, rows } => {
            text.push_str(&format!("held: {} attempts ({} refused), {} sleeps, {} connections accepted, {} rows in final table\n", attempts, refused, sleeps, accepted, rows));
            (true, text)
        }
        Outcome::Violation(c, d) => {
            text.push_str(&format!("{}: {}\n", c, d));
            (false, text)
        }
        Outcome::Inconclusive(w) => {
            text.push_str(&format!("inconclusive: {}\n", w));
            (true, text)
        }
    }
}

/// all phase strings over {R,C,F,P,J} of length <= 3 (155 + the empty script)
pub fn all_scripts(maxlen: usize) -> Vec<String> {
    let mut v = vec![String::new()];
    let mut cur = vec![String::new()];
    for _ in 0..maxlen {
        let mut nxt = Vec::new();
        for s in &cur {
            for ch in "RCFPJ".chars() {
                nxt.push(format!("{}{}", s, ch));
            }
        }
        v.extend(nxt.iter().cloned());
        cur = nxt;
    }
    v
}

pub fn run(ctx: &Ctx) -> Vec<Report> {
    let mut rep = Report::new("C18", "tcp-fault-sequences");
    let Some(cli) = ctx.cli.clone() else { return vec![rep] };
    let _ = CLEAR;
    let mut r = ctx.rng("c18");
    // script list: quick = every script of length <= 1, a fixed set of length 2-3 covering every
    // ordered pair involving R, and random fast scripts; thorough = all 156 of length <= 3 plus
    // random scripts of length 4-5. Scripts are dealt round-robin; a shard runs its slow scripts
    // (with refusals, about 5 s per refusal) sequentially.
    let mut scripts: Vec<String> = Vec::new();
    if ctx.quick() {
        scripts.extend(all_scripts(1));
        // letters followed by a digit: that connection stays open for digit+0.5 s before it is closed / reset
        // (connections normally live for a while before an interruption; retry pacing must not depend on it)
        for s in ["RR", "RF", "FR", "PR", "RP", "JR", "CR", "PF", "PP", "FPF", "PJF", "RFR", "FCP", "PCF", "JPJ", "CPR", "F6R", "F2RR", "P5R", "C6RF", "RF6R", "J3RP"] {
            scripts.push(s.to_string());
        }
        // keep every shard busy with at most ~2 refusals: sort so that R-heavy scripts are spread
        for _ in 0..ctx.n(26, 26) {
            let n = 1 + r.below(4) as usize;
            let mut rr = Rng::derive(ctx.seed, "c18-fast", scripts.len() as u64);
            scripts.push((0..n).map(|_| *rr.pick(&['C', 'F', 'P', 'J', 'P', 'F'])).collect());
        }
    } else {
        scripts.extend(all_scripts(3));
        for i in 0..ctx.n(100, 100) {
            let mut rr = Rng::derive(ctx.seed, "c18-long", i);
            let n = 4 + rr.below(2) as usize;
            scripts.push((0..n).map(|_| *rr.pick(&['R', 'C', 'F', 'P', 'J', 'P', 'F', 'C', 'J'])).collect());
        }
        for a in ["F", "P", "C", "J"] {
            for h in [1, 3, 5, 7] {
                for tail in ["R", "RR", "RF", "PR"] {
                    scripts.push(format!("{}{}{}", a, h, tail));
                    scripts.push(format!("R{}{}{}", a, h, tail));
                }
            }
        }
        rep.exhaustive.push("all 156 fault scripts over {refuse, accept+close, accept+frames+close, accept+partial line+RST, accept+junk} of length <= 3 (one random payload instance each)".into());
    }
    // deal: order by number of refusals descending so the slow ones are spread evenly
    let mut order: Vec<usize> = (0..scripts.len()).collect();
    order.sort_by_key(|&i| std::cmp::Reverse(scripts[i].matches('R').count() * 5 + scripts[i].chars().filter_map(|c| c.to_digit(10)).sum::<u32>() as usize));
    for (k, &i) in order.iter().enumerate() {
        if !ctx.mine(k as u64) {
            continue;
        }
        let letters = scripts[i].clone();
        let mut rr = Rng::derive(ctx.seed, "c18-case", i as u64);
        let case = build_case(&mut rr, &letters);
        let port = 20000 + (ctx.shard as u16) * 600 + (k / ctx.nshards) as u16 % 600;
        let mut attempt = 0;
        loop {
            let mut log = Vec::new();
            let out = run_case(&cli, port, &case, &mut log);
            let key = format!("{}|{}|{}", letters, case.opts.join(" "), esc(&file_equivalent(&case)));
            match out {
                Outcome::Held { attempts, refused, sleeps, accepted, rows } => {
                    rep.eval(Some(key.as_bytes()));
                    rep.class(&format!("script:{}", if letters.is_empty() { "(healthy only)" } else { &letters }));
                    rep.count("connect_attempts_seen_in_strace", attempts as i64);
                    rep.count("refused_attempts", refused as i64);
                    rep.count("sleep_requests_seen_in_strace", sleeps as i64);
                    rep.count("connections_accepted_by_fault_server", accepted as i64);
                    rep.count("rows_in_final_tables_compared", rows as i64);
                    rep.count("partial_lines_split_across_connections", case.phases.iter().filter(|p| matches!(p, Phase::PartialReset(_, _))).count() as i64);
                    if rep.want_sample() {
                        rep.sample(J::obj().with("script", J::s(&letters)).with("options", J::s(&case.opts.join(" "))).with("events", J::arr_s(&log)).with("final_table_rows", J::i(rows as u64)));
                    }
                    break;
                }
                Outcome::Violation(class, detail) => {
                    rep.eval(Some(key.as_bytes()));
                    let mut script = case_script(port, &letters, &case);
                    script.extend(log.iter().map(|l| format!("note {}", l)));
                    rep.violation(&class, format!("script {:?} opts {:?}", letters, case.opts), detail, script);
                    break;
                }
                Outcome::Inconclusive(why) => {
                    attempt += 1;
                    if attempt >= 2 {
                        rep.inconclusive(format!("script {:?}: {}", letters, why));
                        break;
                    }
                }
            }
        }
    }
    vec![rep]
}
