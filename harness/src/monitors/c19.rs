//! C19 – presentation options never change what is decoded; -U is decode-neutral.

use super::c16::mixed_stream;
use crate::drive::{Opts, Table, diff_tables};
use crate::fgen::*;
use crate::json::J;
use crate::lockstep::*;
use crate::refmodel::codes::*;
use crate::refmodel::cpr;
use crate::refmodel::frames::FORMATS;
use crate::replay::{opts_line, seg_line_bytes};
use crate::report::Report;
use crate::rng::Rng;
use crate::Ctx;
use std::collections::HashSet;

fn presentation(r: &mut Rng, scratch: &str, n: u64) -> Opts {
    let display = match r.below(7) {
        0 => vec!["Q".to_string()],
        1 => vec!["aAews".to_string()],
        2 => vec!["".to_string()],
        3 => vec!["a".to_string(), "w".to_string()],
        4 => vec!["e".to_string()],
        5 => vec!["sA".to_string()],
        _ => vec!["zzz".to_string()],
    };
    let order = match r.below(6) {
        0 => vec!["sA".to_string()],
        1 => vec!["".to_string()],
        2 => vec!["N".to_string(), "v".to_string()],
        3 => vec!["dDcCaAsvVNSWE".to_string()],
        4 => vec!["x?".to_string()],
        _ => vec!["a".to_string()],
    };
    Opts {
        display,
        order,
        count: r.chance(1, 2),
        update: *r.pick(&[-1i64, 0, 3, 120, 1000, 1_000_000_000]),
        log_messages: if r.chance(1, 2) { Some(vec![*r.pick(&FORMATS), *r.pick(&FORMATS), *r.pick(&[4u32, 5, 11, 20, 21])]) } else { None },
        downlink_log: if r.chance(1, 3) { Some(format!("{}/sqmon-dl-{}-{}.log", scratch, std::process::id(), n)) } else { None },
        ..Default::default()
    }
}

fn option_pairs(ctx: &Ctx) -> Report {
    let mut rep = Report::new("C19", "presentation-options");
    let mut r = ctx.rng("c19a");
    let scratch = std::env::var("SQMON_SCRATCH").unwrap_or_else(|_| "/dev/shm".to_string());
    let recorded = super::c13::recorded_valid_lines(&ctx.repo, 20_000);
    let n = ctx.share(ctx.n(640, 30_000));
    for pno in 0..n {
        // decoding options are shared by the pair
        let (u, rr) = (r.chance(1, 2), r.chance(1, 2));
        let filter = if r.chance(1, 2) { Some(vec![*r.pick(&FORMATS), *r.pick(&FORMATS), 17]) } else { None };
        let len = 20 + r.below(130) as usize;
        let lines: Vec<Vec<u8>> = if !recorded.is_empty() && r.chance(1, 2) {
            let start = r.below((recorded.len() - len.min(recorded.len())).max(1) as u64) as usize;
            recorded[start..(start + len).min(recorded.len())].to_vec()
        } else {
            mixed_stream(&mut r, len, true).into_iter().map(|x| x.0).collect()
        };
        let mut bytes = Vec::new();
        for l in &lines {
            bytes.extend_from_slice(l);
            bytes.push(b'\n');
        }
        let mut a = presentation(&mut r, &scratch, pno * 2);
        let mut b = presentation(&mut r, &scratch, pno * 2 + 1);
        for o in [&mut a, &mut b] {
            o.u = u;
            o.r = rr;
            o.filter = filter.clone();
        }
        // a finite expiry limit shared by the pair: nothing is older than 60 s in a run of milliseconds, so the table
        // must not depend on the refresh interval (-u 120 / 1000 / 10^9 exceed the limit) or on quiet mode
        if pno % 2 == 1 {
            a.delete_after = 60;
            b.delete_after = 60;
        }
        // -O: the observer differs between the two runs of a pair in half of the cases
        let obs_differs = r.chance(1, 2);
        let obs_a = format!("{}, {}", r.range(-80, 80), r.range(-170, 170));
        let obs_b = if obs_differs { format!("{},{}", r.range(-80, 80), r.range(-170, 170)) } else { obs_a.clone() };
        let mut ta = Table::new();
        let mut tb = Table::new();
        squitterator::set_observer_coords_from_str(&obs_a);
        let ra = ta.run_bytes(&a, &bytes);
        squitterator::set_observer_coords_from_str(&obs_b);
        let rb = tb.run_bytes(&b, &bytes);
        for o in [&a, &b] {
            if let Some(p) = &o.downlink_log {
                let _ = std::fs::remove_file(p);
            }
        }
        let mut sa = ta.snapshot();
        let mut sb = tb.snapshot();
        if obs_differs {
            for s in [&mut sa, &mut sb] {
                for row in s.values_mut() {
                    row.distance_from_observer = None;
                }
            }
        }
        let key = format!("{}|{}|{}", a.describe(), b.describe(), pno);
        rep.eval(if a.describe() != b.describe() || obs_differs { Some(key.as_bytes()) } else { None });
        rep.count("lines_fed", 2 * lines.len() as i64);
        rep.count("rows_compared", sa.len() as i64);
        rep.class(&format!("pair:{}:{}", if obs_differs { "O-differs" } else { "O-same" }, if u { "-U" } else { "default" }));
        let d = if ra.is_err() || rb.is_err() { vec![format!("{:?} / {:?}", ra, rb)] } else { diff_tables(&sa, &sb, 4) };
        if rep.want_sample() {
            rep.sample(
                J::obj()
                    .with("options_a", J::s(format!("{} -O '{}'", a.describe(), obs_a)))
                    .with("options_b", J::s(format!("{} -O '{}'", b.describe(), obs_b)))
                    .with("lines", J::i(lines.len() as u64))
                    .with("rows", J::i(sa.len() as u64))
                    .with("tables_equal", J::Bool(d.is_empty())),
            );
        }
        if !d.is_empty() {
            let sc = vec![
                format!("note run A: {} -O '{}'", a.describe(), obs_a),
                format!("note run B: {} -O '{}'", b.describe(), obs_b),
                opts_line(&a, Some(&obs_a)),
                seg_line_bytes(&lines),
                "expect-nopanic".into(),
            ];
            rep.violation(
                if ra.is_err() || rb.is_err() { "panic" } else { "presentation-option-changes-table" },
                format!("[{}] vs [{}]", a.describe(), b.describe()),
                format!("same stream, options [{} -O '{}'] vs [{} -O '{}']: tables differ: {}", a.describe(), obs_a, b.describe(), obs_b, d.join(" | ")),
                sc,
            );
        }
    }
    rep
}

const UFIELDS: [&str; 10] = ["ais", "altitude", "squawk", "lat", "lon", "grspeed", "track", "vrate", "category", "surveillance_status"];

fn valid_history(r: &mut Rng, addr: u32) -> History {
    let base = (r.f64() * 150.0 - 75.0, r.f64() * 340.0 - 170.0);
    let n = 3 + r.below(25);
    let mut steps: Vec<Step> = Vec::new();
    for k in 0..n {
        let alt = 25 * (40 + r.below(1800) as i32);
        let ca = r.below(8) as u32;
        let f = match r.below(8) {
            0 => df4(addr, r.bits(14) as u32, enc_ac13_q1(alt)),
            1 => df5(addr, r.bits(14) as u32, r.bits(13) as u32),
            2 => df11(addr, ca, 0),
            3 => df17(addr, ca, me_ident(1 + r.below(4) as u32, r.below(8) as u32, enc_callsign(&rand_callsign_codes(r)))),
            4 | 5 => {
                let parity = r.bits(1) as u32;
                let d = r.f64() * 0.003;
                let b = r.f64() * 6.28;
                let (la, lo) = (base.0 + d * b.cos(), base.1 + d * b.sin());
                let c = cpr::encode(la, lo, parity);
                df17(addr, ca, me_airpos(9 + r.below(10) as u32, r.below(4) as u32, r.bits(1) as u32, enc_ac12_q1(alt), r.bits(1) as u32, parity, c.0.max(1), c.1.max(1)))
            }
            6 => {
                let st = 1 + r.below(2) as u32;
                df17(addr, ca, rand_vel(r, st).me())
            }
            _ => df17(addr, ca, me_opstatus(0, r.bits(16) as u32, r.bits(16) as u32, r.below(3) as u32, 0)),
        };
        let gap = if k == 0 { 0.0 } else { *r.pick(&[0.0, 0.0, 1.0, 3.0, 6.0, 8.0, 30.0]) };
        // duplicate receptions and stationary aircraft: an earlier frame of this history is sent again verbatim
        let line = if k >= 2 && r.chance(1, 5) { steps[r.below(k) as usize].lines[0].clone() } else { f.hex() };
        steps.push(Step { shift: gap, lines: vec![line] });
    }
    History { addrs: vec![addr], steps }
}

fn u_neutral(ctx: &Ctx) -> Report {
    let mut rep = Report::new("C19", "U-neutrality");
    let mut r = ctx.rng("c19b");
    let total = ctx.share(ctx.n(8_000, 300_000));
    let mut done = 0;
    while done < total {
        let n = 1024.min(total - done) as usize;
        let mut used = HashSet::new();
        let mut hs = Vec::new();
        for _ in 0..n {
            let a = loop {
                let a = r.addr();
                if used.insert(a) {
                    break a;
                }
            };
            hs.push(valid_history(&mut r, a));
        }
        let rr = r.chance(1, 2);
        let (o0, o1) = (Opts::ur(false, rr), Opts::ur(true, rr));
        let mut st = LsStats::default();
        let out0 = run_lockstep(&o0, &hs, &mut st);
        let out1 = run_lockstep(&o1, &hs, &mut st);
        rep.count("segments", st.segments as i64);
        rep.count("lines_fed", st.lines as i64);
        for (i, h) in hs.iter().enumerate() {
            let (a, b) = (&out0[i], &out1[i]);
            if a.panic.is_some() || b.panic.is_some() {
                let k = a.panic.as_ref().or(b.panic.as_ref()).unwrap().0;
                let mut sc = history_script(if a.panic.is_some() { &o0 } else { &o1 }, None, h, k);
                sc.push("expect-nopanic".into());
                rep.violation("panic", format!("{:06X}", h.addrs[0]), format!("{:?} / {:?}", a.panic, b.panic), sc);
                continue;
            }
            for k in 0..h.steps.len() {
                let (Some(ra), Some(rb)) = (a.obs[k].after[0].as_ref(), b.obs[k].after[0].as_ref()) else {
                    rep.violation("row-missing", format!("{:06X} step {}", h.addrs[0], k), "row absent with one of the two option sets".into(), history_script(&o0, None, h, k));
                    break;
                };
                let key = format!("{}|{}", rr, h.steps[..=k].iter().map(|s| s.lines[0].as_str()).collect::<Vec<_>>().join(","));
                rep.eval(Some(key.as_bytes()));
                let (fa, fb) = (ra.fields(), rb.fields());
                let bad: Vec<String> = fa.iter().zip(fb.iter()).filter(|(x, y)| UFIELDS.contains(&x.0) && x.1 != y.1).map(|(x, y)| format!("{}: without -U {} / with -U {}", x.0, x.1, y.1)).collect();
                if rep.want_sample() && rep.evaluations % 2003 == 17 {
                    rep.sample(
                        J::obj()
                            .with("history", J::arr_s(&h.steps[..=k].iter().map(|s| format!("+{}s {}", s.shift, s.lines[0])).collect::<Vec<_>>()))
                            .with("compared", J::arr_s(&UFIELDS))
                            .with("without_U", J::s(format!("{:?} {:?} {:?} ({:.4},{:.4}) {:?} {:?} {:?}", ra.ais, ra.altitude, ra.squawk, ra.latf(), ra.lonf(), ra.grspeed, ra.track, ra.vrate)))
                            .with("equal", J::Bool(bad.is_empty())),
                    );
                }
                if !bad.is_empty() {
                    let mut sc = history_script(&o1, None, h, k);
                    sc.push("expect-nopanic".into());
                    for (x, _) in fa.iter().zip(fb.iter()).filter(|(x, y)| UFIELDS.contains(&x.0) && x.1 != y.1) {
                        sc.push(format!("expect {:06X} {} {}", h.addrs[0], x.0, x.1));
                    }
                    sc.insert(0, "note expectations = values obtained without -U; the script runs with -U".into());
                    rep.violation("U-changes-decoding", format!("{:06X} step {}", h.addrs[0], k), format!("after {} frames: {}", k + 1, bad.join("; ")), sc);
                    break;
                }
            }
        }
        done += n as u64;
    }
    rep
}

pub fn run(ctx: &Ctx) -> Vec<Report> {
    let mut out = vec![option_pairs(ctx), u_neutral(ctx)];
    if let Some(r) = super::cli::logging_option(ctx) {
        out.push(r);
    }
    out
}
