//! C04 – squitters with failing parity never change the table.
//! Differential subsequence: table(stream with corrupted squitters) must equal
//! table(stream without them), time stamps excluded.

use super::common::*;
use crate::drive::{Opts, Table, diff_tables};
use crate::fgen::*;
use crate::json::J;
use crate::refmodel::codes::*;
use crate::refmodel::frames::*;
use crate::replay::{opts_line, seg_line};
use crate::report::Report;
use crate::rng::Rng;
use crate::Ctx;

/// error patterns over bits 6..=len, as XOR masks aligned like Frame.bits
struct Patterns {
    len: u32,
    max_burst: u32,
}

impl Patterns {
    fn span(&self) -> u32 {
        self.len - 5
    } // number of bit positions 6..=len
    /// number of enumerated patterns: 1-bit, 2-bit, bursts of length 3..=max_burst
    fn count(&self) -> u64 {
        let n = self.span() as u64;
        let mut c = n + n * (n - 1) / 2;
        for b in 3..=self.max_burst as u64 {
            if b <= n {
                c += (n - b + 1) << (b - 2);
            }
        }
        c
    }
    /// i-th pattern as mask
    fn get(&self, mut i: u64) -> u128 {
        let n = self.span() as u64;
        let bit = |p: u64| -> u128 { 1u128 << (self.len as u64 - (6 + p)) }; // p = 0-based offset from bit 6
        if i < n {
            return bit(i);
        }
        i -= n;
        let pairs = n * (n - 1) / 2;
        if i < pairs {
            // unrank pair (a<b)
            let mut a = 0u64;
            let mut rem = i;
            loop {
                let row = n - 1 - a;
                if rem < row {
                    return bit(a) | bit(a + 1 + rem);
                }
                rem -= row;
                a += 1;
            }
        }
        i -= pairs;
        for b in 3..=self.max_burst as u64 {
            if b > n {
                break;
            }
            let per = 1u64 << (b - 2);
            let cnt = (n - b + 1) * per;
            if i < cnt {
                let start = i / per;
                let inner = i % per;
                let mut m = bit(start) | bit(start + b - 1);
                for k in 0..(b - 2) {
                    if (inner >> k) & 1 == 1 {
                        m |= bit(start + 1 + k);
                    }
                }
                return m;
            }
            i -= cnt;
        }
        unreachable!()
    }
}

struct Base {
    name: &'static str,
    s0: Vec<Frame>, // state of the target before
    s1: Frame,      // valid squitter with different content
    addr: u32,
}

fn bases(r: &mut Rng) -> Vec<Base> {
    let mut v = Vec::new();
    let a = r.addr();
    v.push(Base {
        name: "DF17 ident",
        s0: vec![df11(a, 5, 0), df17(a, 5, me_ident(4, 3, enc_callsign(&[1, 1, 1, 1, 1, 1, 1, 1])))],
        s1: df17(a, 6, me_ident(3, 5, enc_callsign(&[2, 3, 4, 5, 6, 7, 8, 9]))),
        addr: a,
    });
    let a = r.addr();
    v.push(Base {
        name: "DF17 airborne position",
        s0: vec![df11(a, 5, 0), df17(a, 5, me_airpos(11, 0, 0, enc_ac12_q1(10000), 0, 0, 50000, 60000))],
        s1: df17(a, 5, me_airpos(12, 1, 0, enc_ac12_q1(31000), 0, 1, 70000, 30000)),
        addr: a,
    });
    let a = r.addr();
    v.push(Base {
        name: "DF18 ident",
        s0: vec![df11(a, 5, 0), df17(a, 5, me_ident(4, 3, enc_callsign(&[1, 1, 1, 1, 1, 1, 1, 1])))],
        s1: df18(a, 2, me_ident(2, 6, enc_callsign(&[20, 21, 22, 23, 24, 25, 26, 49]))),
        addr: a,
    });
    for (ca0, ca1, ic) in [(0u32, 5u32, 0u32), (5, 1, 0x35), (7, 2, 0x7F), (1, 6, 1)] {
        let a = r.addr();
        v.push(Base { name: "DF11", s0: vec![df11(a, ca0, 0)], s1: df11(a, ca1, ic), addr: a });
    }
    v
}

fn run_patterns(
    rep: &mut Report,
    r: &mut Rng,
    base: &Base,
    opts: &Opts,
    masks: &[u128],
    label: &str,
) {
    // benign traffic of other aircraft + same aircraft, interleaved with the corrupted frames
    let others: Vec<u32> = (0..6).map(|_| r.addr()).filter(|a| *a != base.addr).collect();
    let mut clean: Vec<String> = Vec::new();
    let mut dirty: Vec<String> = Vec::new();
    let mut corrupted: Vec<(usize, Frame)> = Vec::new();
    for f in &base.s0 {
        clean.push(f.hex());
        dirty.push(f.hex());
    }
    let mut judged = 0u64;
    for m in masks {
        let mut f = base.s1;
        f.bits ^= *m;
        if !parity_fails(&f) {
            // undetectable by the stated rule (DF11: syndrome confined to the IC bits) – not judged
            rep.count("patterns_not_detectable_skipped", 1);
            continue;
        }
        judged += 1;
        if r.chance(1, 8) {
            let a = if r.chance(1, 4) { base.addr } else { *r.pick(&others) };
            // benign frame never of a squitter format for the target (keeps S0 != S1 visible)
            let g = if a == base.addr { df5(a, 0, r.bits(13) as u32) } else { rand_frame(r, a) };
            clean.push(g.hex());
            dirty.push(g.hex());
        }
        corrupted.push((dirty.len(), f));
        dirty.push(f.hex());
    }
    if judged == 0 {
        return;
    }
    let mut tc = Table::new();
    let mut td = Table::new();
    let rc = tc.run(opts, &clean);
    let rd = td.run(opts, &dirty);
    rep.count("corrupted_frames_fed", judged as i64);
    rep.count("stream_pairs", 1);
    for (_, f) in &corrupted {
        rep.eval(Some(f.hex().as_bytes()));
    }
    rep.class(&format!("{} {} {}", base.name, label, opts.describe()));
    if rc.is_err() {
        rep.inconclusive(format!("clean stream failed: {:?}", rc));
        return;
    }
    let sc = tc.snapshot();
    let diffs = if rd.is_err() { vec![format!("{:?}", rd)] } else { diff_tables(&sc, &td.snapshot(), 3) };
    if rep.want_sample() {
        let (_, f) = &corrupted[0];
        rep.sample(
            J::obj()
                .with("base", J::s(base.name))
                .with("valid_squitter", J::s(base.s1.hex()))
                .with("corrupted", J::s(f.hex()))
                .with("syndrome", J::s(format!("{:06X}", f.syndrome())))
                .with("corrupted_frames_in_stream", J::i(judged))
                .with("tables_equal", J::Bool(diffs.is_empty()))
                .with("options", J::s(opts.describe())),
        );
    }
    if diffs.is_empty() {
        return;
    }
    // locate offending corrupted frames one by one (S0 + single corrupted frame)
    let mut found = 0;
    for (_, f) in &corrupted {
        let mut t0 = Table::new();
        let mut t1 = Table::new();
        let pre: Vec<String> = base.s0.iter().map(|x| x.hex()).collect();
        let mut with = pre.clone();
        with.push(f.hex());
        let _ = t0.run(opts, &pre);
        let r1 = t1.run(opts, &with);
        let d = if r1.is_err() { vec![format!("{:?}", r1)] } else { diff_tables(&t0.snapshot(), &t1.snapshot(), 3) };
        if !d.is_empty() {
            found += 1;
            let mut script = vec![opts_line(opts, None), seg_line(&pre)];
            script.push(format!("show {:06X}", base.addr));
            script.push(seg_line(&[f.hex()]));
            script.push("expect-nopanic".into());
            let snap = t0.snapshot();
            for (k, row) in &snap {
                for (n, v) in row.unstamped().fields() {
                    if ["timestamp", "cpr_time"].contains(&n) || n.ends_with("_timestamp") {
                        continue;
                    }
                    script.push(format!("expect {:06X} {} {}", k, n, v));
                }
            }
            for k in t1.keys() {
                if !snap.contains_key(&k) {
                    script.push(format!("expect-absent {:06X}", k));
                }
            }
            rep.violation(
                if r1.is_err() { "panic" } else { "corrupted-squitter-applied" },
                format!("df{} {} syndrome={:06X}", f.df(), f.hex(), f.syndrome()),
                format!(
                    "DF{} frame {} = valid {} with error pattern {:028X} (syndrome {:06X}) changed the table: {}",
                    f.df(),
                    f.hex(),
                    base.s1.hex(),
                    f.bits ^ base.s1.bits,
                    f.syndrome(),
                    d.join(" | ")
                ),
                script,
            );
            if found >= 8 {
                rep.count("offenders_not_individually_listed", 1);
                break;
            }
        }
    }
    if found == 0 {
        rep.violation(
            "stream-differs",
            format!("{} {}", base.name, label),
            format!("tables differ only on the full stream: {}", diffs.join(" | ")),
            vec![opts_line(opts, None), seg_line(&dirty)],
        );
    }
}

pub fn run(ctx: &Ctx) -> Vec<Report> {
    let mut rep = Report::new("C04", "parity");
    let mut r = ctx.rng("c04");
    let mut rb = Rng::derive(ctx.seed, "c04-bases", 0); // same bases on every shard
    let bases = bases(&mut rb);
    let max_burst = if ctx.quick() { 9 } else { 16 };
    let chunk = 3000usize;
    let mut global_idx = 0u64;
    for base in &bases {
        let pats = Patterns { len: base.s1.len, max_burst };
        let n = pats.count();
        rep.count("enumerated_patterns_total", n as i64);
        for (oi, opts) in [Opts::ur(false, false), Opts::ur(true, false)].iter().enumerate() {
            // enumerated patterns, sharded by chunk index
            let nchunks = n.div_ceil(chunk as u64);
            for c in 0..nchunks {
                global_idx += 1;
                if !ctx.mine(global_idx) {
                    continue;
                }
                let lo = c * chunk as u64;
                let hi = (lo + chunk as u64).min(n);
                let masks: Vec<u128> = (lo..hi).map(|i| pats.get(i)).collect();
                run_patterns(&mut rep, &mut r, base, opts, &masks, "enumerated");
            }
            // sampled: bursts of 17..24 bits and random heavier patterns
            let nrand = ctx.share(ctx.n(6_000, 400_000));
            let span = pats.span() as u64;
            let mut masks: Vec<u128> = Vec::new();
            for k in 0..nrand {
                let m = if k % 2 == 0 {
                    let b = 17 + r.below(8);
                    let b = b.min(span);
                    let start = r.below(span - b + 1);
                    let inner = r.bits((b - 2) as u32) as u128;
                    let bit = |p: u64| 1u128 << (base.s1.len as u64 - (6 + p));
                    let mut m = bit(start) | bit(start + b - 1);
                    for q in 0..(b - 2) {
                        if (inner >> q) & 1 == 1 {
                            m |= bit(start + 1 + q);
                        }
                    }
                    m
                } else {
                    // random heavy pattern on bits 6..len
                    let mut m = 0u128;
                    let w = 3 + r.below(20);
                    for _ in 0..w {
                        m |= 1u128 << (base.s1.len as u64 - (6 + r.below(span)));
                    }
                    m
                };
                masks.push(m);
                if masks.len() == chunk {
                    run_patterns(&mut rep, &mut r, base, opts, &masks, "sampled");
                    masks.clear();
                }
            }
            if !masks.is_empty() {
                run_patterns(&mut rep, &mut r, base, opts, &masks, "sampled");
            }
            // structured non-code-words (algebraic corner cases of a CRC divider): a prefix of the frame that is itself a
            // code word (remainder register zero in mid-frame), followed by a zero run, then arbitrary bits and a PI field
            // that is zero / random / the correct parity with one bit flipped; long zero and one runs in ME.
            if base.s1.len == 112 {
                let nst = ctx.share(ctx.n(8_000, 200_000));
                let len = base.s1.len;
                let mut masks: Vec<u128> = Vec::new();
                for _ in 0..nst {
                    let mut t = base.s1;
                    match r.below(4) {
                        0 | 1 => {
                            let l = *r.pick(&[56u32, 56, 56, 64, 72, 80, 88]);
                            let head = t.get(1, l - 24);
                            let c = crc24_bits(head as u128, l - 24);
                            t.set(l - 23, l, c as u64);
                            let z = (*r.pick(&[8u32, 16, 24, 32])).min(len - 24 - l);
                            if z > 0 {
                                t.set(l + 1, l + z, 0);
                            }
                            if l + z < len - 24 {
                                let w = len - 24 - (l + z);
                                t.set(l + z + 1, len - 24, r.bits(w.min(56)));
                            }
                        }
                        2 => {
                            let a = 33 + r.below(40) as u32;
                            let b = (a + 8 + r.below(40) as u32).min(88);
                            t.set(a, b, 0);
                        }
                        _ => {
                            let a = 33 + r.below(40) as u32;
                            let b = (a + 8 + r.below(40) as u32).min(88);
                            t.set(a, b, (1u64 << (b - a + 1).min(63)) - 1);
                        }
                    }
                    match r.below(3) {
                        0 => t.set(len - 23, len, 0),
                        1 => t.set(len - 23, len, r.bits(24)),
                        _ => {
                            t.seal(0);
                            t.flip(len - 23 + r.below(24) as u32);
                        }
                    }
                    masks.push(t.bits ^ base.s1.bits);
                    if masks.len() == chunk {
                        run_patterns(&mut rep, &mut r, base, opts, &masks, "structured");
                        masks.clear();
                    }
                }
                if !masks.is_empty() {
                    run_patterns(&mut rep, &mut r, base, opts, &masks, "structured");
                }
            }
            let _ = oi;
        }
    }
    rep.exhaustive.push(format!(
        "all 1-bit, 2-bit and burst (length <= {}) error patterns on bits 6..len of each base squitter, both update paths",
        max_burst
    ));
    vec![rep]
}
