//! C16 – DF filter admits only the listed formats; DF counters are exact.
//! (i) in-process differential: table(stream, -f F) == table(stream restricted to DF in F, no filter)
//! (ii) CLI: the last counter line of a `-c --update=-1` run lists exactly the accepted frames per DF.

use super::c13::junk_line;
use crate::drive::{Opts, Table, diff_tables};
use crate::fgen::*;
use crate::json::J;
use crate::refmodel::frames::*;
use crate::replay::{opts_line, seg_line_bytes};
use crate::report::Report;
use crate::rng::Rng;
use crate::Ctx;
use std::collections::BTreeMap;

/// A mixed stream: (line bytes, Some(df) if the reference takes it as an accepted frame with non-zero address)
pub fn mixed_stream(r: &mut Rng, len: usize, with_other_dfs: bool) -> Vec<(Vec<u8>, Option<u32>)> {
    let addrs: Vec<u32> = (0..(2 + r.below(12))).map(|_| r.addr()).collect();
    let mut v = Vec::new();
    for _ in 0..len {
        match r.below(20) {
            0 => {
                let k = loop {
                    let k = r.below(12);
                    if k != 10 && k != 6 {
                        break k;
                    }
                };
                v.push((junk_line(r, k).0, None));
            }
            1 => {
                // zero address: never counted, never applied
                let df = *r.pick(&FORMATS);
                v.push((rand_frame_df(r, 0, df).hex().into_bytes(), None));
            }
            2 if with_other_dfs => {
                // a format outside the nine, correct length: it is a frame; counted under its DF
                let df = *r.pick(&[1u32, 2, 3, 6, 7, 8, 9, 10, 12, 13, 14, 15, 19, 22, 23, 24, 28, 31]);
                let a = *r.pick(&addrs);
                let f = build(df, a, r.bits(27) as u32, r.bits(56), 0);
                v.push((f.hex().into_bytes(), Some(df)));
            }
            _ => {
                let a = *r.pick(&addrs);
                let f = rand_frame(r, a);
                v.push((f.hex().into_bytes(), Some(f.df())));
            }
        }
    }
    v
}

fn bytes_of(lines: &[&Vec<u8>]) -> Vec<u8> {
    let mut b = Vec::new();
    for l in lines {
        b.extend_from_slice(l);
        b.push(b'\n');
    }
    b
}

pub fn run(ctx: &Ctx) -> Vec<Report> {
    let mut rep = Report::new("C16", "filter-differential");
    let mut r = ctx.rng("c16");
    let n = ctx.share(ctx.n(2_400, 80_000));
    for sno in 0..n {
        let len = 20 + r.below(280) as usize;
        let stream = mixed_stream(&mut r, len, false);
        let filter: Vec<u32> = match sno % 3 {
            0 => vec![*r.pick(&FORMATS)],
            1 => {
                let mut f: Vec<u32> = FORMATS.iter().copied().filter(|_| r.chance(1, 2)).collect();
                if f.is_empty() {
                    f.push(*r.pick(&FORMATS));
                }
                f
            }
            _ => {
                // includes values that never occur
                vec![*r.pick(&FORMATS), 24, 19]
            }
        };
        let (u, rr) = (sno % 2 == 1, sno % 4 >= 2);
        // other options must not open the filter: -M (log raw lines of some formats) and -c are varied with it
        let log_messages = if sno % 4 == 1 || sno % 7 == 0 {
            let one = *r.pick(&FORMATS);
            let mut m: Vec<u32> = FORMATS.iter().copied().filter(|_| r.chance(1, 2)).collect();
            m.push(one);
            Some(m)
        } else {
            None
        };
        if log_messages.is_some() {
            rep.count("runs_with_log_messages_option", 1);
        }
        let with_filter = Opts { u, r: rr, filter: Some(filter.clone()), count: sno % 5 == 0, log_messages, ..Default::default() };
        let without = Opts { u, r: rr, filter: None, ..Default::default() };
        let all: Vec<&Vec<u8>> = stream.iter().map(|x| &x.0).collect();
        let restricted: Vec<&Vec<u8>> = stream.iter().filter(|x| x.1.is_some_and(|d| filter.contains(&d))).map(|x| &x.0).collect();
        let excluded_frames = stream.iter().filter(|x| x.1.is_some_and(|d| !filter.contains(&d))).count();
        let mut t1 = Table::new();
        let mut t2 = Table::new();
        let r1 = t1.run_bytes(&with_filter, &bytes_of(&all));
        let r2 = t2.run_bytes(&without, &bytes_of(&restricted));
        let allb = bytes_of(&all);
        rep.eval(if excluded_frames > 0 { Some(&allb) } else { None });
        rep.count("lines_fed", (all.len() + restricted.len()) as i64);
        rep.count("frames_excluded_by_filter", excluded_frames as i64);
        rep.class(&format!("filter-size-{}:{}", filter.len(), with_filter.describe().contains("-U")));
        if r2.is_err() {
            rep.inconclusive(format!("restricted stream failed: {:?}", r2));
            continue;
        }
        let d = if r1.is_err() { vec![format!("{:?}", r1)] } else { diff_tables(&t2.snapshot(), &t1.snapshot(), 4) };
        if rep.want_sample() {
            rep.sample(
                J::obj()
                    .with("options", J::s(with_filter.describe()))
                    .with("stream_lines", J::i(all.len() as u64))
                    .with("frames_admitted", J::i(restricted.len() as u64))
                    .with("frames_excluded", J::i(excluded_frames as u64))
                    .with("rows", J::i(t1.len() as u64))
                    .with("tables_equal", J::Bool(d.is_empty())),
            );
        }
        if !d.is_empty() {
            let lines: Vec<Vec<u8>> = all.iter().map(|l| (*l).clone()).collect();
            let mut sc = vec![opts_line(&with_filter, None), seg_line_bytes(&lines), "expect-nopanic".into()];
            for (k, row) in t2.snapshot().iter().take(6) {
                for (nm, v) in row.unstamped().fields() {
                    if ["altitude", "squawk", "ais", "capability", "last_df"].contains(&nm) {
                        sc.push(format!("expect {:06X} {} {}", k, nm, v));
                    }
                }
            }
            for k in t1.keys() {
                if t2.get(k).is_none() {
                    sc.push(format!("expect-absent {:06X}", k));
                }
            }
            rep.violation(
                if r1.is_err() { "panic" } else { "filter-differs" },
                format!("-f {:?}", filter),
                format!("with -f {:?} the table differs from the table of the admitted frames alone: {}", filter, d.join(" | ")),
                sc,
            );
        }
    }
    let mut out = vec![rep];
    if let Some(r2) = super::cli::counter_lines(ctx) {
        out.push(r2);
    }
    out
}

/// reference count per DF (accepted, non-zero address, admitted by the filter)
pub fn ref_counts(stream: &[(Vec<u8>, Option<u32>)], filter: &Option<Vec<u32>>) -> BTreeMap<u32, u64> {
    let mut m = BTreeMap::new();
    for (_, df) in stream {
        if let Some(d) = df {
            if filter.as_ref().is_none_or(|f| f.contains(d)) {
                *m.entry(*d).or_insert(0) += 1;
            }
        }
    }
    m
}
