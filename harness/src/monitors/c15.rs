//! C15 – every refresh lists each aircraft once, ordered by the requested key.

use super::c14::{cell, gen_rows, parse_table};
use crate::json::J;
use crate::printsub::*;
use crate::report::Report;
use crate::rng::Rng;
use crate::Ctx;

pub const KEY_LETTERS: [char; 12] = ['s', 'a', 'A', 'v', 'V', 'N', 'S', 'W', 'E', 'd', 'D', 'c'];

/// last letter of the concatenated -o arguments that the statement recognises
pub fn last_key(order: &[String]) -> Option<char> {
    order.iter().flat_map(|s| s.chars()).filter(|c| KEY_LETTERS.contains(c)).last()
}

#[derive(PartialEq, Clone, Copy, Debug)]
pub enum Dir {
    Asc,
    Desc,
    EitherWay,
}

/// key of a row under letter `k` (None = blank key, row not constrained), and the required direction
pub fn key_of(k: char, r: &PRow) -> (Option<(i64, i64)>, Dir) {
    let pos_known = r.lat != 0.0 && r.lon != 0.0;
    match k {
        's' => (r.squawk.map(|x| (x as i64, 0)), Dir::Asc),
        'a' => (r.altitude.map(|x| (x as i64, 0)), Dir::Asc),
        'A' => (r.altitude.map(|x| (x as i64, 0)), Dir::Desc),
        'v' => (r.vrate.map(|x| (x as i64, 0)), Dir::Asc),
        'V' => (r.vrate.map(|x| (x as i64, 0)), Dir::Desc),
        'd' => (r.dist.map(|x| (x as i64, 0)), Dir::Asc),
        'D' => (r.dist.map(|x| (x as i64, 0)), Dir::Desc),
        'N' | 'S' => (if pos_known { Some((r.lat as i64, 0)) } else { None }, Dir::EitherWay),
        'W' | 'E' => (if pos_known { Some((r.lon as i64, 0)) } else { None }, Dir::EitherWay),
        'c' => (Some((r.category.0 as i64, r.category.1 as i64)), Dir::EitherWay),
        _ => (Some((r.icao as i64, 0)), Dir::Asc),
    }
}

/// direction actually observed over the constrained rows: (non-decreasing?, non-increasing?)
pub fn observed_direction(keys: &[(i64, i64)]) -> (bool, bool) {
    let up = keys.windows(2).all(|w| w[0] <= w[1]);
    let down = keys.windows(2).all(|w| w[0] >= w[1]);
    (up, down)
}

/// check one printed order (sequence of ICAO addresses) against the rows and -o
pub fn check_order(printed: &[u32], rows: &[PRow], order: &[String]) -> Vec<(String, String)> {
    let mut bad = Vec::new();
    let mut want: Vec<u32> = rows.iter().map(|r| r.icao).collect();
    want.sort();
    let mut got = printed.to_vec();
    got.sort();
    if want != got {
        let missing: Vec<String> = want.iter().filter(|a| !got.contains(a)).map(|a| format!("{:06X}", a)).collect();
        let mut dup = got.clone();
        dup.dedup();
        bad.push(("not-a-permutation".into(), format!("printed {} rows for {} aircraft; missing {:?}; duplicates {}", printed.len(), rows.len(), missing, got.len() - dup.len())));
        return bad;
    }
    let k = last_key(order).unwrap_or('#');
    let keys: Vec<(i64, i64)> = printed.iter().filter_map(|a| rows.iter().find(|r| r.icao == *a)).filter_map(|r| key_of(k, r).0).collect();
    let dir = key_of(k, &rows[0]).1;
    let (up, down) = observed_direction(&keys);
    let ok = match dir {
        Dir::Asc => up,
        Dir::Desc => down,
        Dir::EitherWay => up || down,
    };
    if !ok {
        bad.push((
            format!("order-{}", if k == '#' { "address".to_string() } else { k.to_string() }),
            format!("-o {:?}: last recognised key {:?} requires {:?} order; keys down the table: {:?}", order, k, dir, keys.iter().map(|x| if x.1 == 0 { format!("{}", x.0) } else { format!("{:?}", x) }).collect::<Vec<_>>()),
        ));
    }
    bad
}

fn order_strings(ctx: &Ctx, r: &mut Rng) -> Vec<Vec<String>> {
    let mut v: Vec<Vec<String>> = Vec::new();
    v.push(vec!["".into()]);
    v.push(vec!["xyz?".into()]);
    for a in KEY_LETTERS {
        v.push(vec![a.to_string()]);
        for b in KEY_LETTERS {
            v.push(vec![format!("{}{}", a, b)]);
        }
    }
    for _ in 0..ctx.n(40, 2000) {
        let n = 1 + r.below(3);
        let mut args = Vec::new();
        for _ in 0..n {
            let len = r.below(6);
            let s: String = (0..len).map(|_| if r.chance(1, 5) { *r.pick(&['x', 'q', '1', '-', 'n']) } else { *r.pick(&KEY_LETTERS) }).collect();
            args.push(s);
        }
        v.push(args);
    }
    v
}

pub fn run(ctx: &Ctx) -> Vec<Report> {
    let mut rep = Report::new("C15", "print-order");
    let mut ro = Rng::derive(ctx.seed, "c15-orders", 0);
    let orders = order_strings(ctx, &mut ro);
    let mut r = ctx.rng("c15");
    let reps = ctx.n(2, 30);
    let mut ns_dirs: Vec<(u32, char, bool, bool)> = Vec::new();
    for rp in 0..reps {
        let mut specs: Vec<TableSpec> = Vec::new();
        for (oi, o) in orders.iter().enumerate() {
            if !ctx.mine(oi as u64 + rp) {
                continue;
            }
            // tables with frequent blanks and ties
            let n = 2 + r.below(59) as usize;
            let mut rows = gen_rows(&mut r, n, true);
            for i in 1..rows.len() {
                if r.chance(1, 4) {
                    let j = r.below(i as u64) as usize;
                    rows[i].squawk = rows[j].squawk;
                    rows[i].altitude = rows[j].altitude;
                    rows[i].vrate = rows[j].vrate;
                    rows[i].category = rows[j].category;
                }
            }
            specs.push(TableSpec { display: vec!["".into()], order: o.clone(), rows });
        }
        // opposite-direction pairs on one table: N vs S, W vs E
        let rows = gen_rows(&mut r, 30, true);
        let base = specs.len();
        for k in ['N', 'S', 'W', 'E'] {
            specs.push(TableSpec { display: vec!["".into()], order: vec![k.to_string()], rows: rows.clone() });
        }
        match render(&specs) {
            Err(e) => {
                if e.contains("panicked") {
                    rep.violation("panic-in-print", "print child".into(), e, vec![]);
                } else {
                    rep.inconclusive(e);
                }
            }
            Ok(texts) => {
                for (ti, (spec, text)) in specs.iter().zip(texts.iter()).enumerate() {
                    let Ok(pt) = parse_table(text) else {
                        rep.violation("table-structure", format!("{:?}", spec.order), "cannot parse printed table".into(), vec![]);
                        continue;
                    };
                    let Some(ic) = pt.cols.iter().find(|c| c.0 == "ICAO").cloned() else {
                        rep.violation("column-missing", "ICAO".into(), pt.header.clone(), vec![]);
                        continue;
                    };
                    let printed: Vec<u32> = pt.rows.iter().filter_map(|l| u32::from_str_radix(cell(l, ic.1, ic.2).trim(), 16).ok()).collect();
                    let k = last_key(&spec.order);
                    rep.eval(Some(format!("{:?}|{}", spec.order, spec.rows.iter().map(|x| x.to_line()).collect::<Vec<_>>().join("/")).as_bytes()));
                    rep.class(&format!("key-{}", k.map(|c| c.to_string()).unwrap_or("none".into())));
                    rep.count("tables_rendered", 1);
                    rep.count("rows_rendered", spec.rows.len() as i64);
                    let bad = check_order(&printed, &spec.rows, &spec.order);
                    if ti >= base {
                        let kk = k.unwrap();
                        let keys: Vec<(i64, i64)> = printed.iter().filter_map(|a| spec.rows.iter().find(|r| r.icao == *a)).filter_map(|r| key_of(kk, r).0).collect();
                        let (up, down) = observed_direction(&keys);
                        ns_dirs.push((rp as u32, kk, up, down));
                    }
                    if rep.want_sample() {
                        rep.sample(
                            J::obj()
                                .with("order_by", J::arr_s(&spec.order))
                                .with("last_recognised_key", J::s(format!("{:?}", k)))
                                .with("rows", J::i(spec.rows.len() as u64))
                                .with("printed_first", J::arr_s(&printed.iter().take(5).map(|a| format!("{:06X}", a)).collect::<Vec<_>>()))
                                .with("problems", J::i(bad.len() as u64)),
                        );
                    }
                    for (class, msg) in bad {
                        rep.violation(&class, format!("-o {:?}", spec.order), msg, vec![format!("note print sub-process with -o {:?} on {} rows", spec.order, spec.rows.len())]);
                    }
                }
            }
        }
    }
    // N must be the opposite of S, W the opposite of E (when the table is not constant in that key)
    for rp in 0..reps as u32 {
        for (a, b) in [('N', 'S'), ('W', 'E')] {
            let da = ns_dirs.iter().find(|x| x.0 == rp && x.1 == a);
            let db = ns_dirs.iter().find(|x| x.0 == rp && x.1 == b);
            if let (Some(da), Some(db)) = (da, db) {
                let strict_a = da.2 != da.3;
                let strict_b = db.2 != db.3;
                rep.eval(Some(format!("opp{}{}{}", a, b, rp).as_bytes()));
                if strict_a && strict_b && da.2 == db.2 {
                    rep.violation("opposite-keys-same-direction", format!("{}{}", a, b), format!("-o {} and -o {} sort the same table in the same direction", a, b), vec![]);
                }
            }
        }
    }
    rep.exhaustive.push("every single key letter and all two-letter -o strings over the key alphabet".into());
    let mut out = vec![rep];
    if let Some(r2) = super::cli::refresh_order(ctx) {
        out.push(r2);
    }
    out
}
