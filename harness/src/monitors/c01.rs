//! C01 – no input line or option set can crash or wedge the decoder.
//! Hostile line generator x option sets; in-process (overflow checks + debug assertions on)
//! and on the built CLI (debug and release profile). Canary frames after the hostile lines.

use super::cli::{cli_args, refreshes, run_cli, scratch};
use crate::drive::{Opts, RunErr, Table};
use crate::fgen::*;
use crate::json::J;
use crate::refmodel::codes::*;
use crate::refmodel::commb;
use crate::refmodel::frames::*;
use crate::refmodel::velocity::Vel;
use crate::replay::{esc_line, opts_line, seg_line_bytes};
use crate::report::Report;
use crate::rng::Rng;
use crate::Ctx;
use std::sync::mpsc;
use std::time::{Duration, Instant};

/// one hostile line (bytes without newline) and a coarse class label
pub fn hostile_line(r: &mut Rng, addrs: &[u32]) -> (Vec<u8>, &'static str) {
    let a = *r.pick(addrs);
    let b17 = |me: u64, r: &mut Rng| df17(a, r.below(8) as u32, me).hex().into_bytes();
    let edge17 = |r: &mut Rng| *r.pick(&[0u32, 1, 2, 0x1FFFF, 0x1FFFE, 0x10000, 0xFFFF]);
    match r.below(26) {
        0 => {
            // every DF against both lengths, sealed as the DF would be
            let d = r.below(32) as u32;
            let long = r.chance(1, 2);
            let mut f = Frame::zero(if long { 112 } else { 56 });
            f.bits = (r.bits(64) as u128) << 64 | r.bits(64) as u128;
            f.bits &= (1u128 << f.len) - 1;
            f.set(1, 5, d as u64);
            match d {
                11 | 17 | 18 => {
                    f.set(9, 32, a as u64);
                    f.seal(0)
                }
                _ => f.seal(a),
            }
            (f.hex().into_bytes(), "df-length-grid")
        }
        1 => (df4(a, r.bits(14) as u32, r.bits(13) as u32).hex().into_bytes(), "df4-any-ac13"),
        2 => (df20(a, r.bits(14) as u32, r.bits(13) as u32, r.bits(56)).hex().into_bytes(), "df20-any-ac13"),
        3 => (df5(a, r.bits(14) as u32, r.bits(13) as u32).hex().into_bytes(), "df5-any-id13"),
        4 => (df21(a, r.bits(14) as u32, r.bits(13) as u32, r.bits(56)).hex().into_bytes(), "df21-any-id13"),
        5 => {
            // AC12 for every type code
            let tc = r.below(32) as u32;
            (b17(me_airpos(tc, r.below(4) as u32, r.bits(1) as u32, r.bits(12) as u32, r.bits(1) as u32, r.bits(1) as u32, edge17(r), edge17(r)), r), "tc-any-ac12-edge-cpr")
        }
        6 => {
            let v = Vel {
                subtype: r.below(8) as u32,
                ew_dir: r.bits(1) as u32,
                ew: *r.pick(&[0u32, 1, 2, 1023, 1022, 512]),
                ns_dir: r.bits(1) as u32,
                ns: *r.pick(&[0u32, 1, 2, 1023, 1022, 512]),
                vr_src: r.bits(1) as u32,
                vr_sign: r.bits(1) as u32,
                vr: *r.pick(&[0u32, 1, 2, 511, 510]),
                misc: r.bits(5) as u32,
                diff_sign: r.bits(1) as u32,
                diff: *r.pick(&[0u32, 1, 127]),
            };
            (b17(v.me(), r), "velocity-edges")
        }
        7 => {
            // surface / airborne position pairs with extreme CPR fields
            let tc = 5 + r.below(14) as u32;
            let f = r.bits(1) as u32;
            let me = if tc < 9 {
                me_surface(tc, r.bits(7) as u32, r.bits(1) as u32, r.bits(7) as u32, 0, f, edge17(r), edge17(r))
            } else {
                me_airpos(tc, 0, 0, enc_ac12_q1(10000), 0, f, edge17(r), edge17(r))
            };
            (b17(me, r), "cpr-edges")
        }
        8 => {
            let mut codes = [0u32; 8];
            for c in codes.iter_mut() {
                *c = *r.pick(&[0u32, 63, 32, 27, 47, 58, 1, 26, 48, 57]);
            }
            (b17(me_ident(r.below(8) as u32, r.below(8) as u32, enc_callsign(&codes)), r), "ident-any-codes")
        }
        9 => {
            let mb = match r.below(8) {
                0 => 0,
                1 => 0xFF_FFFF_FFFF_FFFF,
                2 => commb::enc_17(true, true, true, 0xFFFFFF),
                3 => commb::enc_40(4095, 4095, 4095, 7, 3, [true; 5]),
                4 => commb::enc_50((1, 511), (1, 1023), 1023, (1, 511), 1023, [true; 5]),
                5 => commb::enc_60((1, 1023), 1023, 1023, (1, 511), (1, 511), [true; 5]),
                6 => commb::enc_50((1, 0), (1, 0), 0, (1, 0), 0, [true; 5]),
                _ => r.bits(56),
            };
            let f = if r.chance(1, 2) { df20(a, r.bits(14) as u32, r.bits(13) as u32, mb) } else { df21(a, r.bits(14) as u32, r.bits(13) as u32, mb) };
            (f.hex().into_bytes(), "commb-register-shapes")
        }
        10 => (b17(me_raw(r.below(32) as u32, r.bits(51)), r), "df17-random-me"),
        11 => (df18(a, r.below(8) as u32, me_raw(r.below(32) as u32, r.bits(51))).hex().into_bytes(), "df18-random-me"),
        12 => (rand_frame(r, a).hex().into_bytes(), "well-formed"),
        13 => ((0..r.below(80)).map(|_| r.bits(8) as u8).filter(|b| *b != b'\n').collect(), "random-bytes"),
        14 => (vec![], "empty"),
        15 => (b"\r".to_vec(), "lone-cr"),
        16 => ((0..r.below(65)).map(|_| b"0123456789abcdefABCDEF"[r.below(22) as usize]).collect(), "hex-0-64-digits"),
        17 => {
            let n = 65_536 + r.below(300_000) as usize;
            let mut v = rand_frame(r, a).hex().into_bytes();
            v.resize(n, *r.pick(&[b'0', b'F', b' ', 0xC3, b'*']));
            (v, "long-line")
        }
        18 => {
            let mut v = rand_frame(r, a).hex().into_bytes();
            v.insert(r.below(v.len() as u64) as usize, *r.pick(&[0u8, 0x80, 0xFF, 0xC0, b'\t']));
            (v, "frame-with-bad-byte")
        }
        19 => {
            // zero address through every format
            (rand_frame(r, 0).hex().into_bytes(), "zero-address")
        }
        20 => (format!("@{:012X}{};", r.bits(48), rand_frame(r, a).hex()).into_bytes(), "sbs-timestamped"),
        21 => (format!("*{};", rand_frame(r, a).hex().to_lowercase()).into_bytes(), "avr-lowercase"),
        22 => {
            // frame with DF in the nine but damaged parity / truncated by one digit
            let mut h = rand_frame(r, a).hex();
            h.pop();
            (h.into_bytes(), "truncated")
        }
        23 => (df0(a, r.bits(14) as u32, r.bits(13) as u32).hex().into_bytes(), "df0-any-ac13"),
        24 => (df16(a, r.bits(14) as u32, r.bits(13) as u32, r.bits(56)).hex().into_bytes(), "df16-any"),
        _ => (df11(a, r.below(8) as u32, r.below(128) as u32).hex().into_bytes(), "df11-ic"),
    }
}

pub fn hostile_opts(r: &mut Rng, quietish: bool) -> Opts {
    let display = if quietish {
        vec!["Q".to_string()]
    } else {
        let letters = ['a', 'A', 'e', 'w', 's'];
        let m = r.below(33);
        if m == 32 { vec!["Q".into()] } else { vec![letters.iter().enumerate().filter(|(i, _)| (m >> i) & 1 == 1).map(|(_, c)| *c).collect::<String>()] }
    };
    let order: Vec<String> = match r.below(5) {
        0 => vec!["sA".into()],
        1 => vec!["".into()],
        2 => vec![(0..r.below(6)).map(|_| *r.pick(&['s', 'a', 'A', 'c', 'C', 'd', 'D', 'N', 'S', 'W', 'E', 'v', 'V', 'x', '?'])).collect()],
        3 => vec!["N".into(), "dV".into()],
        _ => vec!["CcC".into()],
    };
    Opts {
        u: r.chance(1, 2),
        r: r.chance(1, 2),
        count: r.chance(1, 2),
        filter: match r.below(4) {
            0 => None,
            1 => Some(vec![r.below(32) as u32]),
            2 => Some((0..r.below(6)).map(|_| r.below(32) as u32).collect()),
            _ => Some(vec![*r.pick(&FORMATS), *r.pick(&FORMATS)]),
        },
        delete_after: *r.pick(&[-5i64, 0, 1, 60, 60, 1 << 31, i64::MAX, i64::MIN]),
        update: *r.pick(&[-1i64, -1, 0, 3, 1 << 31, i64::MAX / 1000 + 1, i64::MAX / 1000 - 1, -(i64::MAX / 1000) - 2, i64::MIN, i64::MAX]),
        display,
        order,
        log_messages: if r.chance(1, 4) { Some(vec![r.below(32) as u32]) } else { None },
        downlink_log: None,
    }
}

pub fn hostile_file(r: &mut Rng, nlines: usize) -> (Vec<Vec<u8>>, Vec<&'static str>, Vec<u32>) {
    let addrs: Vec<u32> = (0..(1 + r.below(4))).map(|_| r.addr()).collect();
    let mut lines = Vec::new();
    let mut classes = Vec::new();
    for _ in 0..nlines {
        // first-frame and update paths: sometimes precede with a benign frame of the same address
        if r.chance(1, 6) {
            let a = *r.pick(&addrs);
            lines.push(df11(a, 5, 0).hex().into_bytes());
            classes.push("benign-prefix");
        }
        let (l, c) = hostile_line(r, &addrs);
        lines.push(l);
        classes.push(c);
    }
    // canaries: fresh addresses, formats admitted by every filter choice is not guaranteed -> checked only when admitted
    let canaries: Vec<u32> = (0..3).map(|_| 0xCA0000 | r.bits(16) as u32).collect();
    for (i, c) in canaries.iter().enumerate() {
        let f = match i {
            0 => df11(*c, 5, 0),
            1 => df17(*c, 5, me_ident(4, 3, enc_callsign(&[3, 1, 14, 1, 18, 25, 32, 32]))),
            _ => df4(*c, 0, enc_ac13_q1(33000)),
        };
        lines.push(f.hex().into_bytes());
        classes.push("canary");
    }
    (lines, classes, canaries)
}

fn join_bytes(lines: &[Vec<u8>], final_newline: bool) -> Vec<u8> {
    let mut b = Vec::new();
    for (i, l) in lines.iter().enumerate() {
        b.extend_from_slice(l);
        if i + 1 < lines.len() || final_newline {
            b.push(b'\n');
        }
    }
    b
}

/// run with a watchdog; Err(None) = watchdog fired
fn run_watchdog(opts: &Opts, bytes: Vec<u8>, limit: Duration) -> (Result<Result<(), RunErr>, ()>, Table, f64) {
    let t = Table::new();
    let arc = t.arc.clone();
    let (tx, rx) = mpsc::channel();
    let o = opts.clone();
    let t0 = Instant::now();
    std::thread::spawn(move || {
        let mut tt = Table { arc, segments: 0, lines: 0 };
        let res = tt.run_bytes(&o, &bytes);
        let _ = tx.send(res);
    });
    match rx.recv_timeout(limit) {
        Ok(res) => (Ok(res), t, t0.elapsed().as_secs_f64()),
        Err(_) => (Err(()), t, t0.elapsed().as_secs_f64()),
    }
}

fn canary_admitted(opts: &Opts, i: usize) -> bool {
    let df = [11u32, 17, 4][i];
    opts.filter.as_ref().is_none_or(|f| f.contains(&df))
}

fn in_process(ctx: &Ctx) -> Report {
    let mut rep = Report::new("C01", "in-process-hostile");
    let mut r = ctx.rng("c01a");
    let files = ctx.share(ctx.n(1_600, 60_000));
    let mut durations: Vec<f64> = Vec::new();
    for fno in 0..files {
        let nl = if fno % 50 == 0 { 2000 } else { 20 + r.below(300) as usize };
        let nl = match std::env::var("SQMON_MAXLINES").ok().and_then(|x| x.parse::<usize>().ok()) {
            Some(m) => nl.min(m),
            None => nl,
        };
        let (lines, classes, canaries) = hostile_file(&mut r, nl);
        let opts = hostile_opts(&mut r, fno % 3 != 0);
        let bytes = join_bytes(&lines, fno % 7 != 0);
        let med = if durations.len() >= 20 {
            let mut d = durations.clone();
            d.sort_by(|a, b| a.partial_cmp(b).unwrap());
            d[d.len() / 2]
        } else {
            0.05
        };
        let slow: f64 = std::env::var("SQMON_SLOW").ok().and_then(|x| x.parse().ok()).unwrap_or(1.0);
        let limit = Duration::from_secs_f64((200.0 * med).max(20.0 * slow));
        let (res, t, wall) = run_watchdog(&opts, bytes.clone(), limit);
        durations.push(wall);
        for c in &classes {
            rep.class(&format!("{}:{}", c, if opts.u { "-U" } else { "default" }));
        }
        rep.count("lines_fed", lines.len() as i64);
        rep.count("files", 1);
        let key = format!("{}|{}", opts.describe(), fno);
        rep.eval(Some(&bytes[..bytes.len().min(8192)]));
        let script_for = |ls: &[Vec<u8>]| -> Vec<String> {
            let cut: Vec<Vec<u8>> = ls.iter().map(|l| if l.len() > 3000 { l[..3000].to_vec() } else { l.clone() }).collect();
            vec![
                format!("note options: {} (update={}, delete_after={}); lines longer than 3000 bytes are cut here", opts.describe(), opts.update, opts.delete_after),
                opts_line(&opts, None),
                seg_line_bytes(&cut),
                "expect-nopanic".into(),
            ]
        };
        match res {
            Err(()) => {
                // re-run alone with 10x the time before calling it a hang
                let (res2, _, w2) = run_watchdog(&opts, bytes.clone(), limit * 10);
                if res2.is_err() {
                    rep.violation("hang", key, format!("reader did not finish a {}-line file within {:.0} s (median run {:.3} s)", lines.len(), w2, med), script_for(&lines));
                } else {
                    rep.inconclusive(format!("watchdog fired once ({:.1} s) but the re-run finished in {:.1} s", wall, w2));
                }
                continue;
            }
            Ok(Err(RunErr::Panic(p))) => {
                rep.panic(&crate::batch::panic_loc(&p));
                // smallest prefix that still panics
                let (mut lo, mut hi) = (0usize, lines.len());
                while lo + 1 < hi {
                    let mid = (lo + hi) / 2;
                    let (r2, _, _) = run_watchdog(&opts, join_bytes(&lines[..mid], true), limit);
                    if matches!(r2, Ok(Err(RunErr::Panic(_)))) {
                        hi = mid;
                    } else {
                        lo = mid;
                    }
                }
                let culprit = &lines[hi - 1];
                // does the last line alone do it?
                let (r3, _, _) = run_watchdog(&opts, join_bytes(&lines[hi - 1..hi], true), limit);
                let minimal: Vec<Vec<u8>> = if matches!(r3, Ok(Err(RunErr::Panic(_)))) { vec![culprit.clone()] } else { lines[..hi].to_vec() };
                rep.violation(
                    "panic",
                    format!("{} @ {} line {}", classes[hi - 1], crate::batch::panic_loc(&p), esc_line(&culprit[..culprit.len().min(80)])),
                    format!("reader thread panicked: {} | options {} (update={}, delete_after={}) | line class {} | line {:?}", p, opts.describe(), opts.update, opts.delete_after, classes[hi - 1], esc_line(&culprit[..culprit.len().min(120)])),
                    script_for(&minimal),
                );
                continue;
            }
            Ok(Err(RunErr::Io(e))) => {
                rep.violation("io-error", key, format!("reader returned an error on a readable file: {}", e), script_for(&lines));
                continue;
            }
            Ok(Ok(())) => {}
        }
        // well-formed lines after hostile ones are still processed
        if opts.delete_after > 1 {
            for (i, c) in canaries.iter().enumerate() {
                if canary_admitted(&opts, i) {
                    rep.count("canaries_checked", 1);
                    if t.get(*c).is_none() {
                        let mut sc = script_for(&lines);
                        sc.push(format!("expect-present {:06X}", c));
                        rep.violation("canary-missing", key.clone(), format!("well-formed frame for {:06X} at the end of the file left no row (options {})", c, opts.describe()), sc);
                        break;
                    }
                }
            }
        }
        if rep.want_sample() {
            rep.sample(
                J::obj()
                    .with("options", J::s(format!("{} update={} delete_after={}", opts.describe(), opts.update, opts.delete_after)))
                    .with("lines", J::i(lines.len() as u64))
                    .with("a_hostile_line", J::s(esc_line(&lines[lines.len() / 2][..lines[lines.len() / 2].len().min(60)])))
                    .with("class", J::s(classes[lines.len() / 2]))
                    .with("finished_s", J::Num(wall))
                    .with("rows_at_end", J::i(t.len() as u64)),
            );
        }
    }
    rep
}

/// exhaustive sub-sweeps through the pipeline (panic-freedom only): all AC13/ID13 in every AP format,
/// all AC12 for every TC 0..31, both paths
fn sweeps(ctx: &Ctx) -> Report {
    let mut rep = Report::new("C01", "in-process-field-sweeps");
    let mut r = ctx.rng("c01s");
    for u in [false, true] {
        let opts = Opts::ur(u, true);
        let mut lines: Vec<String> = Vec::new();
        let mut n = 0u64;
        let flush = |lines: &mut Vec<String>, rep: &mut Report| {
            if lines.is_empty() {
                return;
            }
            let mut t = Table::new();
            let res = t.run(&opts, lines);
            rep.count("lines_fed", lines.len() as i64);
            if let Err(e) = res {
                // locate
                for l in lines.iter() {
                    let mut t2 = Table::new();
                    if let Err(e2) = t2.run(&opts, &[l.clone()]) {
                        rep.violation("panic", format!("sweep {}", l), format!("{:?}", e2), vec![opts_line(&opts, None), format!("seg {}", l), "expect-nopanic".into()]);
                        if let RunErr::Panic(p) = &e2 {
                            rep.panic(&crate::batch::panic_loc(p));
                        }
                        break;
                    }
                }
                let _ = e;
            }
            lines.clear();
        };
        for code in 0..8192u32 {
            for df in [0u32, 4, 5, 16, 20, 21] {
                n += 1;
                if !ctx.mine(n / 512) {
                    continue;
                }
                // same address for runs of 16 codes: first-frame and update paths
                let a = 0x500000 + (code / 16) * 7 + df;
                let f = build(df, a, ((r.bits(14) as u32) << 13) | code, r.bits(56), 0);
                lines.push(f.hex());
                rep.eval(Some(f.hex().as_bytes()));
            }
            if lines.len() > 3000 {
                flush(&mut lines, &mut rep);
            }
        }
        for tc in 0..32u32 {
            for code in 0..4096u32 {
                n += 1;
                if !ctx.mine(n / 512) {
                    continue;
                }
                let a = 0x600000 + tc * 300 + code / 16;
                let f = df17(a, 5, me_airpos(tc, 0, 0, code, 0, (code & 1) as u32, 1 + r.below(131071) as u32, 1 + r.below(131071) as u32));
                lines.push(f.hex());
                rep.eval(Some(f.hex().as_bytes()));
                if lines.len() > 3000 {
                    flush(&mut lines, &mut rep);
                }
            }
        }
        flush(&mut lines, &mut rep);
    }
    rep.exhaustive.push("all 8192 AC13/ID13 values in DF0/4/5/16/20/21 and all 4096 AC12 values for every type code 0..31, default and -U".into());
    rep
}

fn cli_runs(ctx: &Ctx) -> Option<Report> {
    let debug = ctx.cli.clone()?;
    let mut rep = Report::new("C01", "cli-exit-status");
    let mut r = ctx.rng("c01c");
    let bins: Vec<(String, &str)> = match &ctx.cli_release {
        Some(rel) => vec![(debug.clone(), "debug"), (rel.clone(), "release")],
        None => vec![(debug.clone(), "debug")],
    };
    let have_valgrind = std::process::Command::new("valgrind").arg("--version").output().map(|o| o.status.success()).unwrap_or(false);
    rep.count("valgrind_available", have_valgrind as i64);
    let runs = ctx.share(ctx.n(160, 6_000));
    let recs = ["squitters.txt", "raw1.txt", "sbs2.txt", "df24.txt", "err.txt", "ruler.txt", "df0-df16.txt", "raw2.txt", "sbs1.txt", "df4-alt-error.txt"];
    for k in 0..runs {
        let mut opts = hostile_opts(&mut r, k % 4 != 0);
        let use_rec = k % 10 == 9;
        let nhl = 10 + r.below(150) as usize;
        let (lines, classes, canaries) = hostile_file(&mut r, nhl);
        let src = scratch("c01.txt");
        let rec_name = recs[(k as usize / 10) % recs.len()];
        let source_desc;
        if use_rec {
            // bundled recordings (first part): default options of a user
            let data = std::fs::read(format!("{}/rec/{}", ctx.repo, rec_name)).unwrap_or_default();
            let cut = data.len().min(if ctx.quick() { 60_000 } else { 600_000 });
            std::fs::write(&src, &data[..cut]).expect("scratch");
            opts.display = vec!["Q".into()];
            source_desc = format!("rec/{} (first {} bytes)", rec_name, cut);
        } else {
            std::fs::write(&src, join_bytes(&lines, k % 5 != 0)).expect("scratch");
            source_desc = format!("{} hostile lines", lines.len());
        }
        if opts.update == -1 && opts.display != vec!["Q".to_string()] && lines.len() > 80 {
            opts.update = 0; // keep the quadratic refresh output small
        }
        let args = cli_args(&opts, &src);
        let mut variants: Vec<(String, &str, Vec<String>)> = bins.iter().map(|(b, p)| (b.clone(), *p, vec![])).collect();
        if let (Some(rel), true) = (&ctx.cli_release, have_valgrind && (k % 8 == 0 || (!ctx.quick() && k % 3 == 0))) {
            // memcheck on the shipped profile: invalid reads/writes, use of uninitialised values, bad frees
            variants.push((rel.clone(), "release under valgrind memcheck", vec!["valgrind".into(), "--quiet".into(), "--error-exitcode=97".into(), "--exit-on-first-error=no".into()]));
        }
        for (bin, profile, prefix) in &variants {
            let out = run_cli(bin, &args, Duration::from_secs(if prefix.is_empty() { 120 } else { 900 }), prefix);
            if !prefix.is_empty() {
                rep.count("valgrind_memcheck_runs", 1);
                rep.count("valgrind_lines_fed", if use_rec { 0 } else { lines.len() as i64 });
                if out.code == Some(97) || out.stderr.contains("== ERROR SUMMARY") || out.stderr.contains("Invalid read") || out.stderr.contains("Invalid write") || out.stderr.contains("uninitialised") {
                    rep.violation("valgrind-memcheck-report", opts.describe(), format!("memcheck reported on {}: {}", source_desc, out.stderr.chars().take(1200).collect::<String>()), vec![format!("cli {}", cli_args(&opts, "{STREAM}").join(" ")), "note run under: valgrind --error-exitcode=97 <release binary>".into()]);
                    continue;
                }
            }
            rep.eval(Some(format!("{}|{}|{}", profile, args.join(" "), k).as_bytes()));
            rep.class(&format!("{}:{}", profile, if use_rec { "recording" } else { "hostile" }));
            rep.count("cli_runs", 1);
            let mut script = vec![format!("cli {}", cli_args(&opts, "{STREAM}").join(" "))];
            if use_rec {
                script.push(format!("note input: {}", source_desc));
            } else {
                let cut: Vec<Vec<u8>> = lines.iter().map(|l| if l.len() > 3000 { l[..3000].to_vec() } else { l.clone() }).collect();
                script.push(seg_line_bytes(&cut).replacen("seg ", "stream ", 1));
            }
            script.push("expect-exit-0".into());
            if out.timed_out {
                rep.violation("cli-hang", format!("{} {}", profile, opts.describe()), format!("{} CLI did not finish {} within 120 s", profile, source_desc), script.clone());
                continue;
            }
            if !out.clean_exit() {
                let loc = out.stderr.lines().find(|l| l.contains("panicked")).unwrap_or("").to_string();
                rep.violation(
                    if out.signal.is_some() { "cli-killed-by-signal" } else if out.stderr.contains("panicked") { "cli-panic" } else { "cli-nonzero-exit" },
                    format!("{} {} {}", profile, loc.chars().take(120).collect::<String>(), opts.describe()),
                    format!("{} CLI on {}: {} | args {}", profile, source_desc, out.describe(), cli_args(&opts, "<file>").join(" ")),
                    script.clone(),
                );
                continue;
            }
            // canaries on the last refresh when one is printed for every frame
            if !use_rec && opts.update == -1 && opts.display != vec!["Q".to_string()] && opts.delete_after > 1 {
                let blocks = refreshes(&out.stdout);
                if let Some(last) = blocks.last() {
                    for (i, c) in canaries.iter().enumerate() {
                        if canary_admitted(&opts, i) {
                            rep.count("canaries_checked", 1);
                            if !last.contains(&format!("{:06X}", c)) {
                                rep.violation("canary-missing", format!("{} {}", profile, opts.describe()), format!("{} CLI: last refresh lacks the well-formed final aircraft {:06X}", profile, c), script.clone());
                                break;
                            }
                        }
                    }
                }
            }
        }
        let _ = std::fs::remove_file(&src);
        if rep.want_sample() {
            rep.sample(J::obj().with("args", J::s(cli_args(&opts, "<file>").join(" "))).with("input", J::s(&source_desc)).with("profiles", J::arr_s(&bins.iter().map(|b| b.1).collect::<Vec<_>>())).with("classes", J::arr_s(&classes.iter().take(8).copied().collect::<Vec<_>>())));
        }
    }
    Some(rep)
}

pub fn run(ctx: &Ctx) -> Vec<Report> {
    if std::env::var("SQMON_ONLY_INPROCESS").is_ok() {
        // sanitizer / interpreter builds (Miri, ASan, TSan) repeat the hostile in-process workload only
        return vec![in_process(ctx)];
    }
    let mut out = vec![in_process(ctx), sweeps(ctx)];
    if let Some(r) = cli_runs(ctx) {
        out.push(r);
    }
    out
}
