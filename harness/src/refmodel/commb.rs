//! Reference encoders / decoders for the Comm-B registers of C10 (ICAO Doc 9871
//! Table A-2-23/32/48/64/80/96). `mb` is the 56-bit MB field, bit 1 = MSB.

#[inline]
fn g(mb: u64, sb: u32, eb: u32) -> u64 {
    (mb >> (56 - eb)) & ((1u64 << (eb - sb + 1)) - 1)
}
#[inline]
fn put(mb: &mut u64, sb: u32, eb: u32, v: u64) {
    let n = eb - sb + 1;
    let mask = ((1u64 << n) - 1) << (56 - eb);
    *mb = (*mb & !mask) | ((v << (56 - eb)) & mask);
}

#[derive(Clone, Copy, PartialEq, Eq, Debug, Hash, PartialOrd, Ord)]
pub enum Reg {
    B17,
    B20,
    B30,
    B40,
    B50,
    B60,
}

// ---------------------------------------------------------------- BDS 1,7
/// GICB capability report advertising the given registers (plus 2,0, always set as the
/// standard requires) and `extra` other capability bits (MB bits 1..=24, excluding 7/9/16/24).
pub fn enc_17(b40: bool, b50: bool, b60: bool, extra: u32) -> u64 {
    let mut mb = 0u64;
    let keep = extra & 0xFF_FFFF & !((1 << (24 - 7)) | (1 << (24 - 9)) | (1 << (24 - 16)) | 1);
    put(&mut mb, 1, 24, keep as u64);
    put(&mut mb, 7, 7, 1);
    put(&mut mb, 9, 9, b40 as u64);
    put(&mut mb, 16, 16, b50 as u64);
    put(&mut mb, 24, 24, b60 as u64);
    mb
}
pub fn adv_bit(reg: Reg) -> u32 {
    match reg {
        Reg::B20 => 7,
        Reg::B40 => 9,
        Reg::B50 => 16,
        Reg::B60 => 24,
        _ => 0,
    }
}
/// well-formed 1,7 report: 2,0 advertised and bits 25..56 zero (29..56 in later editions – we generate 25..56 zero)
pub fn strong_17(mb: u64) -> bool {
    g(mb, 7, 7) == 1 && g(mb, 25, 56) == 0
}
/// weakest reading of "a report advertised register R": the capability bit of R is set
pub fn weak_advertises(mb: u64, reg: Reg) -> bool {
    let b = adv_bit(reg);
    b != 0 && g(mb, b, b) == 1
}
/// necessary shape of a 1,7 report under any reading: 2,0 bit set and bits 29..56 zero
pub fn weak_17(mb: u64) -> bool {
    g(mb, 7, 7) == 1 && g(mb, 29, 56) == 0
}

// ---------------------------------------------------------------- BDS 2,0 / 3,0
pub fn is_20(mb: u64) -> bool {
    g(mb, 1, 8) == 0x20
}
pub fn enc_20(chars48: u64) -> u64 {
    (0x20u64 << 48) | (chars48 & 0xFFFF_FFFF_FFFF)
}
pub fn is_30(mb: u64) -> bool {
    g(mb, 1, 8) == 0x30
}
/// (ARA first bit, MTE)
pub fn threat_30(mb: u64) -> (bool, bool) {
    (g(mb, 9, 9) == 1, g(mb, 28, 28) == 1)
}

// ---------------------------------------------------------------- BDS 4,0
#[derive(Clone, Copy, Debug, PartialEq)]
pub struct V40 {
    pub mcp: u32,  // ft
    pub fms: u32,  // ft
    pub baro: u32, // mb, truncated
}
pub fn enc_40(mcp_raw: u32, fms_raw: u32, baro_raw: u32, modes: u32, src: u32, st: [bool; 5]) -> u64 {
    let mut mb = 0u64;
    put(&mut mb, 1, 1, st[0] as u64);
    put(&mut mb, 2, 13, mcp_raw as u64);
    put(&mut mb, 14, 14, st[1] as u64);
    put(&mut mb, 15, 26, fms_raw as u64);
    put(&mut mb, 27, 27, st[2] as u64);
    put(&mut mb, 28, 39, baro_raw as u64);
    put(&mut mb, 48, 48, st[3] as u64);
    put(&mut mb, 49, 51, modes as u64);
    put(&mut mb, 54, 54, st[4] as u64);
    put(&mut mb, 55, 56, src as u64);
    mb
}
pub fn weak_40(mb: u64) -> bool {
    g(mb, 1, 1) == 1 && g(mb, 14, 14) == 1 && g(mb, 27, 27) == 1 && g(mb, 40, 47) == 0 && g(mb, 52, 53) == 0
}
pub fn strong_40(mb: u64) -> bool {
    weak_40(mb)
        && g(mb, 48, 48) == 1
        && g(mb, 54, 54) == 1
        && g(mb, 2, 13) != 0
        && g(mb, 15, 26) != 0
        && g(mb, 28, 39) != 0
        && g(mb, 49, 51) != 0
        && g(mb, 55, 56) != 0
}
pub fn dec_40(mb: u64) -> V40 {
    V40 {
        mcp: g(mb, 2, 13) as u32 * 16,
        fms: g(mb, 15, 26) as u32 * 16,
        baro: 800 + g(mb, 28, 39) as u32 / 10,
    }
}

// ---------------------------------------------------------------- BDS 5,0
/// signed values carry (floor, toward-zero) alternatives
#[derive(Clone, Copy, Debug, PartialEq)]
pub struct V50 {
    pub roll: (i32, i32),
    pub track: (u32, u32),
    pub gs: u32,
    pub tar: (i32, i32),
    pub tas: u32,
    pub roll_exact: f64,
    pub tar_exact: f64,
}
pub fn enc_50(roll: (u32, u32), track: (u32, u32), gs: u32, tar: (u32, u32), tas: u32, st: [bool; 5]) -> u64 {
    let mut mb = 0u64;
    put(&mut mb, 1, 1, st[0] as u64);
    put(&mut mb, 2, 2, roll.0 as u64);
    put(&mut mb, 3, 11, roll.1 as u64);
    put(&mut mb, 12, 12, st[1] as u64);
    put(&mut mb, 13, 13, track.0 as u64);
    put(&mut mb, 14, 23, track.1 as u64);
    put(&mut mb, 24, 24, st[2] as u64);
    put(&mut mb, 25, 34, gs as u64);
    put(&mut mb, 35, 35, st[3] as u64);
    put(&mut mb, 36, 36, tar.0 as u64);
    put(&mut mb, 37, 45, tar.1 as u64);
    put(&mut mb, 46, 46, st[4] as u64);
    put(&mut mb, 47, 56, tas as u64);
    mb
}
pub fn weak_50(mb: u64) -> bool {
    g(mb, 1, 1) == 1 && g(mb, 12, 12) == 1 && g(mb, 24, 24) == 1 && g(mb, 35, 35) == 1 && g(mb, 46, 46) == 1
}
fn fl_tz(num: i64, den: i64) -> (i32, i32) {
    (num.div_euclid(den) as i32, (num / den) as i32)
}
pub fn dec_50(mb: u64) -> V50 {
    let rs = g(mb, 2, 2) as i64;
    let rv = g(mb, 3, 11) as i64 - 512 * rs;
    let ts = g(mb, 13, 13) as i64;
    let tv = g(mb, 14, 23) as i64 - 1024 * ts; // two's complement, x 90/512 deg
    let track_num = if tv < 0 { tv * 90 + 360 * 512 } else { tv * 90 };
    let tr = fl_tz(track_num, 512);
    let as_ = g(mb, 36, 36) as i64;
    let av = g(mb, 37, 45) as i64 - 512 * as_;
    V50 {
        roll: fl_tz(rv * 45, 256),
        track: (tr.0 as u32, tr.1 as u32),
        gs: g(mb, 25, 34) as u32 * 2,
        tar: fl_tz(av * 8, 256),
        tas: g(mb, 47, 56) as u32 * 2,
        roll_exact: rv as f64 * 45.0 / 256.0,
        tar_exact: av as f64 * 8.0 / 256.0,
    }
}
/// statement's "if" precondition for 5,0
pub fn strong_50(mb: u64) -> bool {
    if !weak_50(mb) {
        return false;
    }
    let nz = g(mb, 3, 11) != 0 && g(mb, 14, 23) != 0 && g(mb, 25, 34) != 0 && g(mb, 37, 45) != 0 && g(mb, 47, 56) != 0;
    let v = dec_50(mb);
    nz && v.roll_exact.abs() <= 50.0
        && v.gs <= 600
        && v.tas <= 500
        && (v.gs as i64 - v.tas as i64).abs() < 200
}
/// plausibility with boundaries exactly as stated (|roll|<=50, GS<=600, TAS<=500, |GS-TAS|<200)
pub fn plausible_50_exact(mb: u64) -> bool {
    let v = dec_50(mb);
    v.roll_exact.abs() <= 50.0 && v.gs <= 600 && v.tas <= 500 && (v.gs as i64 - v.tas as i64).abs() < 200
}

// ---------------------------------------------------------------- BDS 6,0
#[derive(Clone, Copy, Debug, PartialEq)]
pub struct V60 {
    pub hdg: (u32, u32),
    pub ias: u32,
    pub mach: f64,
    pub baro_rate: i32,
    pub inertial_rate: i32,
}
pub fn enc_60(hdg: (u32, u32), ias: u32, mach: u32, baro: (u32, u32), inert: (u32, u32), st: [bool; 5]) -> u64 {
    let mut mb = 0u64;
    put(&mut mb, 1, 1, st[0] as u64);
    put(&mut mb, 2, 2, hdg.0 as u64);
    put(&mut mb, 3, 12, hdg.1 as u64);
    put(&mut mb, 13, 13, st[1] as u64);
    put(&mut mb, 14, 23, ias as u64);
    put(&mut mb, 24, 24, st[2] as u64);
    put(&mut mb, 25, 34, mach as u64);
    put(&mut mb, 35, 35, st[3] as u64);
    put(&mut mb, 36, 36, baro.0 as u64);
    put(&mut mb, 37, 45, baro.1 as u64);
    put(&mut mb, 46, 46, st[4] as u64);
    put(&mut mb, 47, 47, inert.0 as u64);
    put(&mut mb, 48, 56, inert.1 as u64);
    mb
}
pub fn weak_60(mb: u64) -> bool {
    g(mb, 1, 1) == 1 && g(mb, 13, 13) == 1 && g(mb, 24, 24) == 1 && g(mb, 35, 35) == 1 && g(mb, 46, 46) == 1
}
pub fn dec_60(mb: u64) -> V60 {
    let hs = g(mb, 2, 2) as i64;
    let hv = g(mb, 3, 12) as i64 - 1024 * hs;
    let hnum = if hv < 0 { hv * 90 + 360 * 512 } else { hv * 90 };
    let h = fl_tz(hnum, 512);
    let bs = g(mb, 36, 36) as i64;
    let bv = g(mb, 37, 45) as i64 - 512 * bs;
    let is_ = g(mb, 47, 47) as i64;
    let iv = g(mb, 48, 56) as i64 - 512 * is_;
    V60 {
        hdg: (h.0 as u32, h.1 as u32),
        ias: g(mb, 14, 23) as u32,
        mach: g(mb, 25, 34) as f64 * 2.048 / 512.0,
        baro_rate: (bv * 32) as i32,
        inertial_rate: (iv * 32) as i32,
    }
}
pub fn strong_60(mb: u64) -> bool {
    if !weak_60(mb) {
        return false;
    }
    let nz = g(mb, 3, 12) != 0 && g(mb, 14, 23) != 0 && g(mb, 25, 34) != 0 && g(mb, 37, 45) != 0 && g(mb, 48, 56) != 0;
    let v = dec_60(mb);
    nz && g(mb, 25, 34) <= 250 && v.baro_rate.abs() <= 6000 && v.inertial_rate.abs() <= 6000
}

/// Which of the value-carrying registers could this MB field be under the *weak* (necessary)
/// reading: used for the "only if" direction and for precedence ambiguity.
pub fn weak_candidates(mb: u64) -> Vec<Reg> {
    let mut v = Vec::new();
    if is_20(mb) {
        v.push(Reg::B20);
    }
    if is_30(mb) {
        v.push(Reg::B30);
    }
    if weak_17(mb) {
        v.push(Reg::B17);
    }
    if weak_40(mb) {
        v.push(Reg::B40);
    }
    if weak_50(mb) {
        v.push(Reg::B50);
    }
    if weak_60(mb) {
        v.push(Reg::B60);
    }
    v
}

#[cfg(test)]
mod tests {
    use super::*;
    use crate::refmodel::frames::Frame;
    #[test]
    fn riddle_examples() {
        // A000139381951536E024D4CCF6B5 -> BDS 5,0: roll 2.1, track 114.258, GS 438, TAR 0.125, TAS 424
        let f = Frame::from_hex("A000139381951536E024D4CCF6B5").unwrap();
        let mb = f.get(33, 88);
        assert!(weak_50(mb));
        let v = dec_50(mb);
        assert_eq!(v.gs, 438);
        assert_eq!(v.tas, 424);
        assert_eq!(v.track.0, 114);
        assert_eq!(v.roll.0, 2);
        assert_eq!(v.tar.0, 0);
        // A00004128F39F91A7E27C46ADC21 -> BDS 6,0: hdg 42.715, IAS 252, Mach 0.42, baro -1920, inertial -1920
        let f = Frame::from_hex("A00004128F39F91A7E27C46ADC21").unwrap();
        let mb = f.get(33, 88);
        assert!(weak_60(mb));
        let v = dec_60(mb);
        assert_eq!(v.hdg.0, 42);
        assert_eq!(v.ias, 252);
        assert!((v.mach - 0.42).abs() < 1e-9);
        assert_eq!(v.baro_rate, -1920);
        assert_eq!(v.inertial_rate, -1920);
        // A000029C85E42F313000007047D3 -> BDS 4,0: MCP 3008, FMS 3008, baro 1020.0
        let f = Frame::from_hex("A000029C85E42F313000007047D3").unwrap();
        let mb = f.get(33, 88);
        assert!(weak_40(mb));
        let v = dec_40(mb);
        assert_eq!(v.mcp, 3008);
        assert_eq!(v.fms, 3008);
        assert_eq!(v.baro, 1020);
        // A0000638FA81C10000000081A92F -> BDS 1,7
        let f = Frame::from_hex("A0000638FA81C10000000081A92F").unwrap();
        let mb = f.get(33, 88);
        assert!(weak_17(mb));
        assert!(weak_advertises(mb, Reg::B40) && weak_advertises(mb, Reg::B50) && weak_advertises(mb, Reg::B60));
    }
    #[test]
    fn encoders() {
        let mb = enc_50((1, 400), (0, 300), 200, (1, 500), 210, [true; 5]);
        assert!(weak_50(mb));
        let v = dec_50(mb);
        assert_eq!(v.gs, 400);
        assert_eq!(v.tas, 420);
        assert!(v.roll_exact < 0.0 && v.tar_exact < 0.0);
        let mb = enc_17(true, false, true, 0xFFFFFF);
        assert!(strong_17(mb));
        assert!(weak_advertises(mb, Reg::B40) && !weak_advertises(mb, Reg::B50) && weak_advertises(mb, Reg::B60));
    }
}
