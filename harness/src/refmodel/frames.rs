//! Reference Mode S frame model: bit container, CRC-24 (generator 0x1FFF409),
//! builders for DF0/4/5/11/16/17/18/20/21. Written from ICAO Annex 10 Vol IV,
//! independent of the code under test. Bits are numbered 1..=112, MSB first.

pub const GENERATOR: u32 = 0x1FFF409; // 25 bits

/// A 56- or 112-bit frame, left-aligned in a u128 (bit 1 = MSB of the frame).
#[derive(Clone, Copy, PartialEq, Eq, Hash, Debug)]
pub struct Frame {
    pub bits: u128,
    pub len: u32, // 56 or 112 (other values allowed for hostile input)
}

impl Frame {
    pub fn zero(len: u32) -> Frame {
        Frame { bits: 0, len }
    }
    /// value of bits sb..=eb (1-based, inclusive)
    pub fn get(&self, sb: u32, eb: u32) -> u64 {
        let n = eb - sb + 1;
        let shift = self.len - eb;
        ((self.bits >> shift) & ((1u128 << n) - 1)) as u64
    }
    pub fn set(&mut self, sb: u32, eb: u32, v: u64) {
        let n = eb - sb + 1;
        let shift = self.len - eb;
        let mask = ((1u128 << n) - 1) << shift;
        self.bits = (self.bits & !mask) | (((v as u128) << shift) & mask);
    }
    pub fn flip(&mut self, bit: u32) {
        self.bits ^= 1u128 << (self.len - bit);
    }
    pub fn df(&self) -> u32 {
        self.get(1, 5) as u32
    }
    pub fn hex(&self) -> String {
        let nd = (self.len / 4) as usize;
        let mut s = String::with_capacity(nd);
        for i in 0..nd {
            let sh = self.len as usize - 4 * (i + 1);
            let d = ((self.bits >> sh) & 0xF) as u32;
            s.push(char::from_digit(d, 16).unwrap().to_ascii_uppercase());
        }
        s
    }
    pub fn from_hex(h: &str) -> Option<Frame> {
        let mut bits = 0u128;
        let mut n = 0u32;
        for c in h.chars() {
            let d = c.to_digit(16)?;
            if n >= 32 {
                return None;
            }
            bits = (bits << 4) | d as u128;
            n += 1;
        }
        Some(Frame { bits, len: n * 4 })
    }
    /// CRC-24 of the bits preceding the last 24 (i.e. data * x^24 mod G).
    pub fn crc_of_data(&self) -> u32 {
        crc24_bits(self.bits >> 24, self.len - 24)
    }
    /// Syndrome of the whole frame: zero for a DF17/18 squitter with correct PI;
    /// equals the address for AP formats.
    pub fn syndrome(&self) -> u32 {
        self.crc_of_data() ^ (self.bits & 0xFF_FFFF) as u32
    }
    /// install parity so that syndrome() == overlay
    pub fn seal(&mut self, overlay: u32) {
        let c = self.crc_of_data() ^ (overlay & 0xFF_FFFF);
        self.bits = (self.bits & !0xFF_FFFFu128) | c as u128;
    }
}

/// Bitwise CRC: remainder of (data << 24) divided by the generator.
pub fn crc24_bits(data: u128, nbits: u32) -> u32 {
    let mut reg: u32 = 0;
    for i in (0..nbits).rev() {
        let bit = ((data >> i) & 1) as u32;
        let top = ((reg >> 23) & 1) ^ bit;
        reg = (reg << 1) & 0xFF_FFFF;
        if top == 1 {
            reg ^= GENERATOR & 0xFF_FFFF;
        }
    }
    reg
}

/// The nine formats the properties talk about.
pub const FORMATS: [u32; 9] = [0, 4, 5, 11, 16, 17, 18, 20, 21];

pub fn is_long(df: u32) -> bool {
    df >= 16
}
pub fn frame_len(df: u32) -> u32 {
    if is_long(df) { 112 } else { 56 }
}
pub fn is_squitter(df: u32) -> bool {
    matches!(df, 11 | 17 | 18)
}

/// Build a frame of format `df` for `addr`.
/// * `ctl`   – 27 bits that fill bits 6..=32 for AP formats (DF0/4/5/16/20/21);
///             for DF11/17/18 only the low 3 bits are used (CA / CF, bits 6..=8).
/// * `payload` – 56 bits for bits 33..=88 of long formats (ignored for short).
/// * `ic`    – interrogator code overlaid on PI for DF11 (0..127); ignored otherwise.
pub fn build(df: u32, addr: u32, ctl: u32, payload: u64, ic: u32) -> Frame {
    let len = frame_len(df);
    let mut f = Frame::zero(len);
    f.set(1, 5, df as u64);
    if is_squitter(df) {
        f.set(6, 8, (ctl & 7) as u64);
        f.set(9, 32, (addr & 0xFF_FFFF) as u64);
    } else {
        f.set(6, 32, (ctl & 0x7FF_FFFF) as u64);
    }
    if len == 112 {
        f.set(33, 88, payload & 0xFF_FFFF_FFFF_FFFF);
    }
    match df {
        11 => f.seal(ic & 0x7F),
        17 | 18 => f.seal(0),
        _ => f.seal(addr),
    }
    f
}

/// Address a frame is attributed to under the standard (C03), or None for
/// formats outside the nine.
pub fn ref_address(f: &Frame) -> Option<u32> {
    match f.df() {
        11 | 17 | 18 => Some(f.get(9, 32) as u32),
        0 | 4 | 5 | 16 | 20 | 21 => Some(f.syndrome()),
        _ => None,
    }
}

/// Parity verdict of C04 for squitters: true = must be rejected.
pub fn parity_fails(f: &Frame) -> bool {
    match f.df() {
        17 | 18 => f.syndrome() != 0,
        11 => f.syndrome() & !0x7F != 0,
        _ => false,
    }
}

/// Reference acceptance rule of C02 on a *digit sequence* (hex digits only).
/// Returns the frame taken, or None when the line is not a frame.
pub fn ref_accept(digits: &[u8]) -> Option<Frame> {
    let d: &[u8] = match digits.len() {
        14 | 28 => digits,
        26 | 40 => &digits[12..],
        _ => return None,
    };
    let s: String = d.iter().map(|&b| b as char).collect();
    let f = Frame::from_hex(&s)?;
    let df = f.df();
    if frame_len(df) != f.len {
        return None;
    }
    if parity_fails(&f) {
        return None;
    }
    Some(f)
}

/// hex digits of an arbitrary byte line (what remains after discarding non-hex chars);
/// returns None if the line is not valid UTF-8 *and* the caller wants strict reading.
pub fn hex_digits_of(line: &[u8]) -> Vec<u8> {
    line.iter().copied().filter(|b| b.is_ascii_hexdigit()).collect()
}

#[cfg(test)]
mod tests {
    use super::*;
    #[test]
    fn known_frames() {
        // well-known examples from "The 1090MHz Riddle"
        let f = Frame::from_hex("8D406B902015A678D4D220AA4BDA").unwrap();
        assert_eq!(f.syndrome(), 0);
        assert_eq!(ref_address(&f), Some(0x406B90));
        let f = Frame::from_hex("A0001838300000000000007ADA59").unwrap();
        assert_eq!(ref_address(&f), Some(7453696));
        let f = Frame::from_hex("28001A1B1F0706").unwrap();
        assert_eq!(ref_address(&f), Some(5023854));
        let f = Frame::from_hex("5D4CA86EA53C2B").unwrap_or(Frame::zero(56));
        let _ = f;
    }
    #[test]
    fn build_roundtrip() {
        for &df in FORMATS.iter() {
            let f = build(df, 0xABCDEF, 0x5A5A5A5, 0x1234_5678_9ABC_DE, 5);
            assert_eq!(f.df(), df);
            assert_eq!(ref_address(&f), Some(0xABCDEF), "df {}", df);
            assert!(!parity_fails(&f));
            assert_eq!(Frame::from_hex(&f.hex()).unwrap(), f);
        }
    }
}
