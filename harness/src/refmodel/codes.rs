//! Reference decoders for the 13/12-bit altitude code, the 13-bit identity code
//! and the 6-bit callsign alphabet (Annex 10 Vol IV 3.1.2.6.5.4, 3.1.2.6.7.1,
//! 3.1.2.9.1.2). Independent of the code under test.

use std::sync::OnceLock;

#[derive(Clone, Copy, PartialEq, Eq, Debug)]
pub enum AltExp {
    /// the frame must give exactly this altitude (ft)
    Value(u32),
    /// the frame carries no valid altitude: blank (or, on an existing row, previous value kept)
    NoValue,
    /// statement is silent (M=1 metric codes)
    Unconstrained,
}

/// AC13 field (13 bits, MSB = C1): C1 A1 C2 A2 C4 A4 M B1 Q B2 D2 B4 D4
pub fn ref_ac13(v: u32) -> AltExp {
    let v = v & 0x1FFF;
    if v == 0 {
        return AltExp::NoValue;
    }
    if (v >> 6) & 1 == 1 {
        return AltExp::Unconstrained;
    }
    if (v >> 4) & 1 == 1 {
        let n = ((v & 0x1F80) >> 2) | ((v & 0x20) >> 1) | (v & 0xF);
        let alt = 25 * n as i64 - 1000;
        if alt >= 0 { AltExp::Value(alt as u32) } else { AltExp::NoValue }
    } else {
        match gillham_table()[v as usize] {
            Some(a) if a >= 0 => AltExp::Value(a as u32),
            _ => AltExp::NoValue, // illegal code, or below 0 ft (not representable)
        }
    }
}

/// AC12 field of an airborne-position squitter: C1 A1 C2 A2 C4 A4 B1 Q B2 D2 B4 D4
pub fn ref_ac12(w: u32) -> AltExp {
    let w = w & 0xFFF;
    ref_ac13(ac12_to_ac13(w))
}

pub fn ac12_to_ac13(w: u32) -> u32 {
    ((w & 0xFC0) << 1) | (w & 0x3F)
}

/// Encode an altitude (multiple of 25 ft, -1000..=50175) as an AC13 field with Q=1.
pub fn enc_ac13_q1(alt_ft: i32) -> u32 {
    let n = ((alt_ft + 1000) / 25) as u32 & 0x7FF;
    // n = 11 bits: C1 A1 C2 A2 C4 A4 B1 | B2 D2 B4 D4  ; insert M=0 after A4 and Q=1 after B1
    let hi6 = (n >> 5) & 0x3F; // C1..A4
    let b1 = (n >> 4) & 1;
    let lo4 = n & 0xF;
    (hi6 << 7) | (b1 << 5) | (1 << 4) | lo4
}

pub fn enc_ac12_q1(alt_ft: i32) -> u32 {
    let n = ((alt_ft + 1000) / 25) as u32 & 0x7FF;
    ((n >> 4) << 5) | (1 << 4) | (n & 0xF)
}

/// Gillham table built by *forward* encoding of every Mode C altitude
/// (-1200 ft .. 126700 ft in 100-ft steps): index = AC13 field value with M=0,Q(D1)=0.
/// Entries never produced by the encoder are illegal codes (None).
fn gillham_table() -> &'static Vec<Option<i32>> {
    static T: OnceLock<Vec<Option<i32>>> = OnceLock::new();
    T.get_or_init(|| {
        let mut t = vec![None; 8192];
        // 500-ft Gray code over D2 D4 A1 A2 A4 B1 B2 B4 (MSB..LSB); 100-ft code C1 C2 C4
        let c_seq = [0b001u32, 0b011, 0b010, 0b110, 0b100];
        for k in 0u32..256 {
            let g = k ^ (k >> 1);
            let (d2, d4, a1, a2, a4, b1, b2, b4) = (
                (g >> 7) & 1,
                (g >> 6) & 1,
                (g >> 5) & 1,
                (g >> 4) & 1,
                (g >> 3) & 1,
                (g >> 2) & 1,
                (g >> 1) & 1,
                g & 1,
            );
            for h in 0..5usize {
                let c = if k % 2 == 0 { c_seq[h] } else { c_seq[4 - h] };
                let (c1, c2, c4) = ((c >> 2) & 1, (c >> 1) & 1, c & 1);
                // AC13: C1 A1 C2 A2 C4 A4 M B1 Q B2 D2 B4 D4  (bit 12 .. bit 0)
                let v = (c1 << 12)
                    | (a1 << 11)
                    | (c2 << 10)
                    | (a2 << 9)
                    | (c4 << 8)
                    | (a4 << 7)
                    | (b1 << 5)
                    | (b2 << 3)
                    | (d2 << 2)
                    | (b4 << 1)
                    | d4;
                let alt = (k as i32 * 5 + h as i32) * 100 - 1200;
                assert!(t[v as usize].is_none());
                t[v as usize] = Some(alt);
            }
        }
        t
    })
}

/// dump1090-style decoder used only to cross-check the table in the unit test.
#[cfg(test)]
fn gillham_decode_alt(v: u32) -> Option<i32> {
    let bit = |n: u32| (v >> n) & 1;
    let (c1, a1, c2, a2, c4, a4, b1, b2, d2, b4, d4) = (
        bit(12), bit(11), bit(10), bit(9), bit(8), bit(7), bit(5), bit(3), bit(2), bit(1), bit(0),
    );
    if c1 | c2 | c4 == 0 {
        return None;
    }
    let mut one = 0u32;
    if c1 == 1 { one ^= 7 }
    if c2 == 1 { one ^= 3 }
    if c4 == 1 { one ^= 1 }
    if one & 5 == 5 { one ^= 2 }
    if one > 5 { return None }
    let mut five = 0u32;
    if d2 == 1 { five ^= 0xFF }
    if d4 == 1 { five ^= 0x7F }
    if a1 == 1 { five ^= 0x3F }
    if a2 == 1 { five ^= 0x1F }
    if a4 == 1 { five ^= 0x0F }
    if b1 == 1 { five ^= 0x07 }
    if b2 == 1 { five ^= 0x03 }
    if b4 == 1 { five ^= 0x01 }
    if five & 1 == 1 { one = 6 - one }
    Some((five as i32 * 5 + one as i32 - 13) * 100)
}

/// ID13 field (13 bits, MSB first): C1 A1 C2 A2 C4 A4 X B1 D1 B2 D2 B4 D4 -> decimal ABCD
pub fn ref_squawk(id13: u32) -> u32 {
    let b = |n: u32| (id13 >> n) & 1;
    let (c1, a1, c2, a2, c4, a4, b1, d1, b2, d2, b4, d4) = (
        b(12), b(11), b(10), b(9), b(8), b(7), b(5), b(4), b(3), b(2), b(1), b(0),
    );
    let a = a4 * 4 + a2 * 2 + a1;
    let bb = b4 * 4 + b2 * 2 + b1;
    let c = c4 * 4 + c2 * 2 + c1;
    let d = d4 * 4 + d2 * 2 + d1;
    a * 1000 + bb * 100 + c * 10 + d
}

/// inverse of ref_squawk (X = given bit)
pub fn enc_id13(squawk_dec: u32, x: u32) -> u32 {
    let (a, b, c, d) = (squawk_dec / 1000 % 10, squawk_dec / 100 % 10, squawk_dec / 10 % 10, squawk_dec % 10);
    let bit = |v: u32, n: u32| (v >> n) & 1;
    (bit(c, 0) << 12)
        | (bit(a, 0) << 11)
        | (bit(c, 1) << 10)
        | (bit(a, 1) << 9)
        | (bit(c, 2) << 8)
        | (bit(a, 2) << 7)
        | ((x & 1) << 6)
        | (bit(b, 0) << 5)
        | (bit(d, 0) << 4)
        | (bit(b, 1) << 3)
        | (bit(d, 1) << 2)
        | (bit(b, 2) << 1)
        | bit(d, 2)
}

/// 6-bit character set: 1-26 -> A-Z, 48-57 -> 0-9, everything else omitted.
pub fn ref_char(code: u32) -> Option<char> {
    match code {
        1..=26 => Some((b'A' + (code as u8 - 1)) as char),
        48..=57 => Some((b'0' + (code as u8 - 48)) as char),
        _ => None,
    }
}

/// callsign from the 48 character bits (8 x 6, first character in the MSBs)
pub fn ref_callsign(chars48: u64) -> String {
    (0..8).filter_map(|i| ref_char(((chars48 >> (42 - 6 * i)) & 0x3F) as u32)).collect()
}

pub fn enc_callsign(codes: &[u32; 8]) -> u64 {
    codes.iter().fold(0u64, |a, &c| (a << 6) | (c & 0x3F) as u64)
}

pub fn ref_wake(tc: u32, ca: u32) -> Option<char> {
    match (tc, ca) {
        (4, 1) => Some('L'),
        (4, 2) => Some('S'),
        (4, 3) => Some('M'),
        (4, 4) => Some('H'),
        (4, 5) => Some('J'),
        (4, 7) => Some('R'),
        _ => None,
    }
}

#[cfg(test)]
mod tests {
    use super::*;
    #[test]
    fn gillham_consistent() {
        let t = gillham_table();
        let mut legal = 0;
        for v in 0u32..8192 {
            if (v >> 6) & 1 == 1 || (v >> 4) & 1 == 1 {
                assert!(t[v as usize].is_none());
                continue;
            }
            assert_eq!(t[v as usize], gillham_decode_alt(v), "code {:013b}", v);
            if t[v as usize].is_some() {
                legal += 1;
            }
        }
        assert_eq!(legal, 1280);
        // pinned frame of the repository's test_alt_e: AC13 = 1 0000 0000 1010 -> 200 ft
        assert_eq!(ref_ac13(0b1_0000_0000_1010), AltExp::Value(200));
    }
    #[test]
    fn q1() {
        assert_eq!(ref_ac13(enc_ac13_q1(38000)), AltExp::Value(38000));
        assert_eq!(ref_ac13(enc_ac13_q1(-1000)), AltExp::NoValue);
        assert_eq!(ref_ac13(enc_ac13_q1(0)), AltExp::Value(0));
        assert_eq!(ref_ac12(enc_ac12_q1(14300)), AltExp::Value(14300));
        // 1090MHz riddle example: 8D40621D58C382D690C8AC2863A7 -> AC12 = 0xC38 -> 38000 ft
        assert_eq!(ref_ac12(0xC38), AltExp::Value(38000));
    }
    #[test]
    fn squawk() {
        for s in [0u32, 7777, 1200, 7500, 5611, 7666, 2345] {
            assert_eq!(ref_squawk(enc_id13(s, 0)), s);
            assert_eq!(ref_squawk(enc_id13(s, 1)), s);
        }
        // 2800189A8E0F41 -> 5611 (repository vector, also dump1090-consistent): ID13 = bits 20..32
        let f = crate::refmodel::frames::Frame::from_hex("2800189A8E0F41").unwrap();
        assert_eq!(ref_squawk(f.get(20, 32) as u32), 5611);
    }
    #[test]
    fn callsign() {
        let f = crate::refmodel::frames::Frame::from_hex("8D4840D6202CC371C32CE0576098").unwrap();
        assert_eq!(ref_callsign(f.get(41, 88)), "KLM1023");
    }
}
