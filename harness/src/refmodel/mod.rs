pub mod codes;
pub mod commb;
pub mod country;
pub mod cpr;
pub mod frames;
pub mod velocity;
