//! Reference for the airborne-velocity squitter (DF17 TC19), DO-260B A.1.8.

/// ME field of a TC19 squitter. All arguments are raw field values.
#[derive(Clone, Copy, Debug, PartialEq, Eq, Hash)]
pub struct Vel {
    pub subtype: u32, // 0..7
    pub ew_dir: u32,  // 0 east, 1 west
    pub ew: u32,      // 10 bits
    pub ns_dir: u32,  // 0 north, 1 south
    pub ns: u32,      // 10 bits
    pub vr_src: u32,
    pub vr_sign: u32, // 0 up, 1 down
    pub vr: u32,      // 9 bits
    pub misc: u32,    // IC, IFR, NUC (5 bits: ME bits 9..13)
    pub diff_sign: u32,
    pub diff: u32, // 7 bits
}

impl Vel {
    pub fn me(&self) -> u64 {
        let mut v: u64 = 19;
        v = (v << 3) | (self.subtype & 7) as u64;
        v = (v << 5) | (self.misc & 0x1F) as u64;
        v = (v << 1) | (self.ew_dir & 1) as u64;
        v = (v << 10) | (self.ew & 0x3FF) as u64;
        v = (v << 1) | (self.ns_dir & 1) as u64;
        v = (v << 10) | (self.ns & 0x3FF) as u64;
        v = (v << 1) | (self.vr_src & 1) as u64;
        v = (v << 1) | (self.vr_sign & 1) as u64;
        v = (v << 9) | (self.vr & 0x1FF) as u64;
        v <<= 2; // reserved
        v = (v << 1) | (self.diff_sign & 1) as u64;
        v = (v << 7) | (self.diff & 0x7F) as u64;
        v
    }
}

#[derive(Clone, Debug, PartialEq)]
pub struct VelExp {
    /// None = no value (component field 0); Some(set of accepted values)
    pub gs: Option<Vec<u32>>,
    pub track: Option<Vec<u32>>,
    pub vrate: Option<i32>,
}

fn isqrt(n: u64) -> u64 {
    let mut x = (n as f64).sqrt() as u64;
    while x * x > n {
        x -= 1;
    }
    while (x + 1) * (x + 1) <= n {
        x += 1;
    }
    x
}

/// Expected ground speed / track / vertical rate for subtype 1 or 2.
pub fn ref_velocity(v: &Vel) -> VelExp {
    let vrate = if v.vr == 0 {
        None
    } else {
        let r = 64 * (v.vr as i32 - 1);
        Some(if v.vr_sign == 1 { -r } else { r })
    };
    if v.ew == 0 || v.ns == 0 {
        return VelExp { gs: None, track: None, vrate };
    }
    let vew = (v.ew as i64 - 1) * if v.ew_dir == 1 { -1 } else { 1 };
    let vns = (v.ns as i64 - 1) * if v.ns_dir == 1 { -1 } else { 1 };
    let sq = (vew * vew + vns * vns) as u64;
    let gs = if v.subtype == 2 {
        // 4*sqrt(..) within 4 kt
        let exact = 4.0 * (sq as f64).sqrt();
        let lo = (exact - 4.0).ceil().max(0.0) as u32;
        let hi = (exact + 4.0).floor() as u32;
        (lo..=hi).collect()
    } else {
        vec![isqrt(sq) as u32]
    };
    if vew == 0 && vns == 0 {
        // zero velocity vector: the direction is undefined (atan2(0, +-0) is 0 or 180 depending on
        // the sign of zero) - any track in [0,360) is accepted
        return VelExp { gs: Some(gs), track: Some((0..360).collect()), vrate };
    }
    let deg = (vew as f64).atan2(vns as f64).to_degrees();
    let fl = deg.floor();
    let norm = |x: f64| (((x as i64) % 360 + 360) % 360) as u32;
    let mut track = vec![norm(fl)];
    // exact multiples of 45 degrees: the true angle is an integer, accept both neighbours
    if vew == 0 || vns == 0 || vew.abs() == vns.abs() {
        let r = deg.round();
        for c in [r - 1.0, r] {
            let t = norm(c);
            if !track.contains(&t) {
                track.push(t);
            }
        }
    }
    VelExp { gs: Some(gs), track: Some(track), vrate }
}

#[cfg(test)]
mod tests {
    use super::*;
    use crate::refmodel::frames::*;
    #[test]
    fn riddle() {
        // 8D485020994409940838175B284F : GS 159.20 kt, track 182.88, vrate -832
        let f = Frame::from_hex("8D485020994409940838175B284F").unwrap();
        let me = f.get(33, 88);
        let v = Vel {
            subtype: ((me >> 48) & 7) as u32,
            misc: ((me >> 43) & 0x1F) as u32,
            ew_dir: ((me >> 42) & 1) as u32,
            ew: ((me >> 32) & 0x3FF) as u32,
            ns_dir: ((me >> 31) & 1) as u32,
            ns: ((me >> 21) & 0x3FF) as u32,
            vr_src: ((me >> 20) & 1) as u32,
            vr_sign: ((me >> 19) & 1) as u32,
            vr: ((me >> 10) & 0x1FF) as u32,
            diff_sign: ((me >> 7) & 1) as u32,
            diff: (me & 0x7F) as u32,
        };
        assert_eq!(v.me(), me);
        let e = ref_velocity(&v);
        assert_eq!(e.gs, Some(vec![159]));
        assert_eq!(e.track, Some(vec![182]));
        assert_eq!(e.vrate, Some(-832));
    }
}
