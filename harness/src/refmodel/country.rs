//! ICAO Annex 10 Vol III Table 9-1 "Allocation of aircraft addresses to States",
//! transcribed as hex ranges (start, end inclusive, accepted ISO codes).
//! "*" = block reserved by ICAO (no State): any code other than "??" that is not a
//! State's code is accepted. Blocks whose holder changed through later amendments
//! list every reading. Ranges are disjoint and sorted (checked at start-up).

pub type Block = (u32, u32, &'static [&'static str]);

pub const BLOCKS: &[Block] = &[
    (0x004000, 0x0043FF, &["ZW"]),
    (0x006000, 0x006FFF, &["MZ"]),
    (0x008000, 0x00FFFF, &["ZA"]),
    (0x010000, 0x017FFF, &["EG"]),
    (0x018000, 0x01FFFF, &["LY"]),
    (0x020000, 0x027FFF, &["MA"]),
    (0x028000, 0x02FFFF, &["TN"]),
    (0x030000, 0x0303FF, &["BW"]),
    (0x032000, 0x032FFF, &["BI"]),
    (0x034000, 0x034FFF, &["CM"]),
    (0x035000, 0x0353FF, &["KM"]),
    (0x036000, 0x036FFF, &["CG"]),
    (0x038000, 0x038FFF, &["CI"]),
    (0x03E000, 0x03EFFF, &["GA"]),
    (0x040000, 0x040FFF, &["ET"]),
    (0x042000, 0x042FFF, &["GQ"]),
    (0x044000, 0x044FFF, &["GH"]),
    (0x046000, 0x046FFF, &["GN"]),
    (0x048000, 0x0483FF, &["GW"]),
    (0x04A000, 0x04A3FF, &["LS"]),
    (0x04C000, 0x04CFFF, &["KE"]),
    (0x050000, 0x050FFF, &["LR"]),
    (0x054000, 0x054FFF, &["MG"]),
    (0x058000, 0x058FFF, &["MW"]),
    (0x05A000, 0x05A3FF, &["MV"]),
    (0x05C000, 0x05CFFF, &["ML"]),
    (0x05E000, 0x05E3FF, &["MR"]),
    (0x060000, 0x0603FF, &["MU"]),
    (0x062000, 0x062FFF, &["NE"]),
    (0x064000, 0x064FFF, &["NG"]),
    (0x068000, 0x068FFF, &["UG"]),
    (0x06A000, 0x06A3FF, &["QA"]),
    (0x06C000, 0x06CFFF, &["CF"]),
    (0x06E000, 0x06EFFF, &["RW"]),
    (0x070000, 0x070FFF, &["SN"]),
    (0x074000, 0x0743FF, &["SC"]),
    (0x076000, 0x0763FF, &["SL"]),
    (0x078000, 0x078FFF, &["SO"]),
    (0x07A000, 0x07A3FF, &["SZ"]),
    (0x07C000, 0x07CFFF, &["SD"]),
    (0x080000, 0x080FFF, &["TZ"]),
    (0x084000, 0x084FFF, &["TD"]),
    (0x088000, 0x088FFF, &["TG"]),
    (0x08A000, 0x08AFFF, &["ZM"]),
    (0x08C000, 0x08CFFF, &["CD"]),
    (0x090000, 0x090FFF, &["AO"]),
    (0x094000, 0x0943FF, &["BJ"]),
    (0x096000, 0x0963FF, &["CV"]),
    (0x098000, 0x0983FF, &["DJ"]),
    (0x09A000, 0x09AFFF, &["GM"]),
    (0x09C000, 0x09CFFF, &["BF"]),
    (0x09E000, 0x09E3FF, &["ST"]),
    (0x0A0000, 0x0A7FFF, &["DZ"]),
    (0x0A8000, 0x0A8FFF, &["BS"]),
    (0x0AA000, 0x0AA3FF, &["BB"]),
    (0x0AB000, 0x0AB3FF, &["BZ"]),
    (0x0AC000, 0x0ACFFF, &["CO"]),
    (0x0AE000, 0x0AEFFF, &["CR"]),
    (0x0B0000, 0x0B0FFF, &["CU"]),
    (0x0B2000, 0x0B2FFF, &["SV"]),
    (0x0B4000, 0x0B4FFF, &["GT"]),
    (0x0B6000, 0x0B6FFF, &["GY"]),
    (0x0B8000, 0x0B8FFF, &["HT"]),
    (0x0BA000, 0x0BAFFF, &["HN"]),
    (0x0BC000, 0x0BC3FF, &["VC"]),
    (0x0BE000, 0x0BEFFF, &["JM"]),
    (0x0C0000, 0x0C0FFF, &["NI"]),
    (0x0C2000, 0x0C2FFF, &["PA"]),
    (0x0C4000, 0x0C4FFF, &["DO"]),
    (0x0C6000, 0x0C6FFF, &["TT"]),
    (0x0C8000, 0x0C8FFF, &["SR"]),
    (0x0CA000, 0x0CA3FF, &["AG"]),
    (0x0CC000, 0x0CC3FF, &["GD"]),
    (0x0D0000, 0x0D7FFF, &["MX"]),
    (0x0D8000, 0x0DFFFF, &["VE"]),
    (0x100000, 0x1FFFFF, &["RU"]),
    (0x201000, 0x2013FF, &["NA"]),
    (0x202000, 0x2023FF, &["ER"]),
    (0x300000, 0x33FFFF, &["IT"]),
    (0x340000, 0x37FFFF, &["ES"]),
    (0x380000, 0x3BFFFF, &["FR"]),
    (0x3C0000, 0x3FFFFF, &["DE"]),
    (0x400000, 0x43FFFF, &["GB"]),
    (0x440000, 0x447FFF, &["AT"]),
    (0x448000, 0x44FFFF, &["BE"]),
    (0x450000, 0x457FFF, &["BG"]),
    (0x458000, 0x45FFFF, &["DK"]),
    (0x460000, 0x467FFF, &["FI"]),
    (0x468000, 0x46FFFF, &["GR"]),
    (0x470000, 0x477FFF, &["HU"]),
    (0x478000, 0x47FFFF, &["NO"]),
    (0x480000, 0x487FFF, &["NL"]),
    (0x488000, 0x48FFFF, &["PL"]),
    (0x490000, 0x497FFF, &["PT"]),
    (0x498000, 0x49FFFF, &["CZ"]),
    (0x4A0000, 0x4A7FFF, &["RO"]),
    (0x4A8000, 0x4AFFFF, &["SE"]),
    (0x4B0000, 0x4B7FFF, &["CH"]),
    (0x4B8000, 0x4BFFFF, &["TR"]),
    // allocated to Yugoslavia in the table; used by its successor State
    (0x4C0000, 0x4C7FFF, &["YU", "RS", "CS"]),
    (0x4C8000, 0x4C83FF, &["CY"]),
    (0x4CA000, 0x4CAFFF, &["IE"]),
    (0x4CC000, 0x4CCFFF, &["IS"]),
    (0x4D0000, 0x4D03FF, &["LU"]),
    (0x4D2000, 0x4D23FF, &["MT"]),
    // Malta's block was enlarged by a later amendment: both readings accepted
    (0x4D2400, 0x4D2FFF, &["MT", "??"]),
    (0x4D4000, 0x4D43FF, &["MC"]),
    (0x500000, 0x5003FF, &["SM"]),
    (0x501000, 0x5013FF, &["AL"]),
    (0x501C00, 0x501FFF, &["HR"]),
    (0x502C00, 0x502FFF, &["LV"]),
    (0x503C00, 0x503FFF, &["LT"]),
    (0x504C00, 0x504FFF, &["MD"]),
    (0x505C00, 0x505FFF, &["SK"]),
    (0x506C00, 0x506FFF, &["SI"]),
    (0x507C00, 0x507FFF, &["UZ"]),
    (0x508000, 0x50FFFF, &["UA"]),
    (0x510000, 0x5103FF, &["BY"]),
    (0x511000, 0x5113FF, &["EE"]),
    (0x512000, 0x5123FF, &["MK"]),
    (0x513000, 0x5133FF, &["BA"]),
    (0x514000, 0x5143FF, &["GE"]),
    (0x515000, 0x5153FF, &["TJ"]),
    // Montenegro was added by a later amendment: both readings accepted
    (0x516000, 0x5163FF, &["ME", "??"]),
    (0x600000, 0x6003FF, &["AM"]),
    (0x600800, 0x600BFF, &["AZ"]),
    (0x601000, 0x6013FF, &["KG"]),
    (0x601800, 0x601BFF, &["TM"]),
    (0x680000, 0x6803FF, &["BT"]),
    (0x681000, 0x6813FF, &["FM"]),
    (0x682000, 0x6823FF, &["MN"]),
    (0x683000, 0x6833FF, &["KZ"]),
    (0x684000, 0x6843FF, &["PW"]),
    (0x700000, 0x700FFF, &["AF"]),
    (0x702000, 0x702FFF, &["BD"]),
    (0x704000, 0x704FFF, &["MM"]),
    (0x706000, 0x706FFF, &["KW"]),
    (0x708000, 0x708FFF, &["LA"]),
    (0x70A000, 0x70AFFF, &["NP"]),
    (0x70C000, 0x70C3FF, &["OM"]),
    (0x70E000, 0x70EFFF, &["KH"]),
    (0x710000, 0x717FFF, &["SA"]),
    (0x718000, 0x71FFFF, &["KR"]),
    (0x720000, 0x727FFF, &["KP"]),
    (0x728000, 0x72FFFF, &["IQ"]),
    (0x730000, 0x737FFF, &["IR"]),
    (0x738000, 0x73FFFF, &["IL"]),
    (0x740000, 0x747FFF, &["JO"]),
    (0x748000, 0x74FFFF, &["LB"]),
    (0x750000, 0x757FFF, &["MY"]),
    (0x758000, 0x75FFFF, &["PH"]),
    (0x760000, 0x767FFF, &["PK"]),
    (0x768000, 0x76FFFF, &["SG"]),
    (0x770000, 0x777FFF, &["LK"]),
    (0x778000, 0x77FFFF, &["SY"]),
    (0x780000, 0x7BFFFF, &["CN"]),
    (0x7C0000, 0x7FFFFF, &["AU"]),
    (0x800000, 0x83FFFF, &["IN"]),
    (0x840000, 0x87FFFF, &["JP"]),
    (0x880000, 0x887FFF, &["TH"]),
    (0x888000, 0x88FFFF, &["VN"]),
    (0x890000, 0x890FFF, &["YE"]),
    (0x894000, 0x894FFF, &["BH"]),
    (0x895000, 0x8953FF, &["BN"]),
    (0x896000, 0x896FFF, &["AE"]),
    (0x897000, 0x8973FF, &["SB"]),
    (0x898000, 0x898FFF, &["PG"]),
    // ICAO (2) in the table; in practice used by Taiwan
    (0x899000, 0x8993FF, &["*", "TW"]),
    (0x8A0000, 0x8A7FFF, &["ID"]),
    (0x900000, 0x9003FF, &["MH"]),
    (0x901000, 0x9013FF, &["CK"]),
    (0x902000, 0x9023FF, &["WS"]),
    (0xA00000, 0xAFFFFF, &["US"]),
    (0xC00000, 0xC3FFFF, &["CA"]),
    (0xC80000, 0xC87FFF, &["NZ"]),
    (0xC88000, 0xC88FFF, &["FJ"]),
    (0xC8A000, 0xC8A3FF, &["NR"]),
    (0xC8C000, 0xC8C3FF, &["LC"]),
    (0xC8D000, 0xC8D3FF, &["TO"]),
    (0xC8E000, 0xC8E3FF, &["KI"]),
    (0xC90000, 0xC903FF, &["VU"]),
    (0xE00000, 0xE3FFFF, &["AR"]),
    (0xE40000, 0xE7FFFF, &["BR"]),
    (0xE80000, 0xE80FFF, &["CL"]),
    (0xE84000, 0xE84FFF, &["EC"]),
    (0xE88000, 0xE88FFF, &["PY"]),
    (0xE8C000, 0xE8CFFF, &["PE"]),
    (0xE90000, 0xE90FFF, &["UY"]),
    (0xE94000, 0xE94FFF, &["BO"]),
    (0xF00000, 0xF07FFF, &["*"]),
    (0xF09000, 0xF093FF, &["*"]),
];

pub fn check_table() {
    let mut prev_end: i64 = -1;
    for &(s, e, codes) in BLOCKS {
        assert!(s as i64 > prev_end, "blocks overlap or unsorted at {:06X}", s);
        assert!(e >= s && e <= 0xFF_FFFF);
        assert!(!codes.is_empty());
        // every block is a power-of-two aligned prefix block or a remainder of one
        prev_end = e as i64;
    }
}

/// index of the block containing `addr`, by binary search
pub fn block_of(addr: u32) -> Option<usize> {
    let (mut lo, mut hi) = (0usize, BLOCKS.len());
    while lo < hi {
        let mid = (lo + hi) / 2;
        let (s, e, _) = BLOCKS[mid];
        if addr < s {
            hi = mid;
        } else if addr > e {
            lo = mid + 1;
        } else {
            return Some(mid);
        }
    }
    None
}

pub fn is_state_code(code: &str) -> bool {
    BLOCKS.iter().any(|b| b.2.iter().any(|c| *c == code && *c != "*" && *c != "??"))
}

/// Is `code` an accepted display for `addr`?
pub fn ref_country_ok(addr: u32, code: &str) -> bool {
    match block_of(addr) {
        None => code == "??",
        Some(i) => {
            let codes = BLOCKS[i].2;
            codes.iter().any(|c| {
                if *c == "*" { code != "??" && !code.is_empty() && !is_state_code(code) } else { *c == code }
            })
        }
    }
}

#[cfg(test)]
mod tests {
    use super::*;
    #[test]
    fn table_sane() {
        check_table();
        assert!(ref_country_ok(0xA12345, "US"));
        assert!(ref_country_ok(0x4CA86E, "IE"));
        assert!(ref_country_ok(0x3C6666, "DE"));
        assert!(ref_country_ok(0x000001, "??"));
        assert!(!ref_country_ok(0x000001, "US"));
        assert!(ref_country_ok(0xF00001, "ICAO1"));
        assert!(!ref_country_ok(0xF00001, "US"));
    }
}
