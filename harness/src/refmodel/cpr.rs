//! Reference airborne CPR encoder / global decoder (DO-260B A.1.7), NL from the
//! closed formula (not a table), haversine with R = 6371 km.

use std::f64::consts::PI;

pub const NB: f64 = 131072.0; // 2^17

/// Number of longitude zones at latitude `lat` (closed formula, NZ = 15).
pub fn nl(lat: f64) -> i32 {
    let lat = lat.abs();
    if lat < 1e-12 {
        return 59;
    }
    if (lat - 87.0).abs() < 1e-12 {
        return 2;
    }
    if lat > 87.0 {
        return 1;
    }
    let nz = 15.0;
    let a = 1.0 - (PI / (2.0 * nz)).cos();
    let b = (PI / 180.0 * lat).cos().powi(2);
    let v = 1.0 - a / b;
    if v < -1.0 {
        return 1;
    }
    (2.0 * PI / v.acos()).floor() as i32
}

/// Distance in degrees from `lat` to the nearest NL transition latitude (approx., by scanning).
pub fn nl_boundary_distance(lat: f64) -> f64 {
    let lat = lat.abs();
    let mut best = f64::MAX;
    for b in nl_boundaries().iter() {
        let d = (lat - b).abs();
        if d < best {
            best = d;
        }
    }
    best
}

/// Transition latitudes of NL (58 boundaries for NL 59->58 .. 3->2, plus 87.0 for 2->1),
/// computed from the closed formula: lat(NL) = acos( sqrt( (1-cos(pi/30)) / (1-cos(2pi/NL)) ) ).
pub fn nl_boundaries() -> Vec<f64> {
    let mut v = Vec::new();
    for n in 2..=59 {
        let num = 1.0 - (PI / 30.0).cos();
        let den = 1.0 - (2.0 * PI / n as f64).cos();
        let lat = (num / den).sqrt().acos() * 180.0 / PI;
        v.push(lat);
    }
    v
}

fn fmod(a: f64, b: f64) -> f64 {
    a - b * (a / b).floor()
}

/// Encode (lat, lon) into the 17-bit airborne CPR fields for format i (0 even, 1 odd).
pub fn encode(lat: f64, lon: f64, i: u32) -> (u32, u32) {
    let dlat = 360.0 / (60.0 - i as f64);
    let yz = (NB * fmod(lat, dlat) / dlat + 0.5).floor();
    let rlat = dlat * (yz / NB + (lat / dlat).floor());
    let nli = (nl(rlat) - i as i32).max(1);
    let dlon = 360.0 / nli as f64;
    let xz = (NB * fmod(lon, dlon) / dlon + 0.5).floor();
    ((yz as i64).rem_euclid(131072) as u32, (xz as i64).rem_euclid(131072) as u32)
}

#[derive(Clone, Copy, Debug, PartialEq)]
pub enum Global {
    /// decoded position (lat, lon)
    Pos(f64, f64),
    /// the two latitudes fall in different NL zones
    Straddle,
}

/// Reference global decode; `newer` = format (0/1) of the most recent frame.
/// Also returns the two recovered latitudes so callers can judge NL-boundary proximity.
pub fn global_decode(lat_cpr: [u32; 2], lon_cpr: [u32; 2], newer: u32) -> (Global, [f64; 2]) {
    let d0 = 360.0 / 60.0;
    let d1 = 360.0 / 59.0;
    let j = ((59.0 * lat_cpr[0] as f64 - 60.0 * lat_cpr[1] as f64) / NB + 0.5).floor();
    let mut r0 = d0 * (fmod(j, 60.0) + lat_cpr[0] as f64 / NB);
    let mut r1 = d1 * (fmod(j, 59.0) + lat_cpr[1] as f64 / NB);
    if r0 >= 270.0 {
        r0 -= 360.0;
    }
    if r1 >= 270.0 {
        r1 -= 360.0;
    }
    let rl = [r0, r1];
    if nl(r0) != nl(r1) {
        return (Global::Straddle, rl);
    }
    let n = nl(rl[newer as usize]);
    let ni = (n - newer as i32).max(1);
    let m = ((lon_cpr[0] as f64 * (n - 1) as f64 - lon_cpr[1] as f64 * n as f64) / NB + 0.5).floor();
    let mut lon = (360.0 / ni as f64) * (fmod(m, ni as f64) + lon_cpr[newer as usize] as f64 / NB);
    if lon >= 180.0 {
        lon -= 360.0;
    }
    (Global::Pos(rl[newer as usize], lon), rl)
}

pub fn haversine_km(lat1: f64, lon1: f64, lat2: f64, lon2: f64) -> f64 {
    let r = 6371.0;
    let (p1, p2) = (lat1.to_radians(), lat2.to_radians());
    let dp = p2 - p1;
    let dl = (lon2 - lon1).to_radians();
    let a = (dp / 2.0).sin().powi(2) + p1.cos() * p2.cos() * (dl / 2.0).sin().powi(2);
    2.0 * r * a.sqrt().min(1.0).asin()
}

#[cfg(test)]
mod tests {
    use super::*;
    #[test]
    fn riddle_example() {
        // 8D40621D58C382D690C8AC2863A7 (even) / 8D40621D58C386435CC412692AD6 (odd), odd newer?
        // lat_cpr even 93000 odd 74158, lon_cpr even 51372 odd 50194 -> 52.2572, 3.91937 (even newer)
        let (g, _) = global_decode([93000, 74158], [51372, 50194], 0);
        match g {
            Global::Pos(lat, lon) => {
                assert!((lat - 52.25720).abs() < 1e-4);
                assert!((lon - 3.91937).abs() < 1e-4);
            }
            _ => panic!(),
        }
    }
    #[test]
    fn nl_values() {
        assert_eq!(nl(0.0), 59);
        assert_eq!(nl(10.0), 59);
        assert_eq!(nl(10.5), 58);
        assert_eq!(nl(52.25), 36);
        assert_eq!(nl(86.9), 2);
        assert_eq!(nl(87.5), 1);
        let b = nl_boundaries();
        assert_eq!(b.len(), 58);
        assert!((b[57] - 10.47047130).abs() < 1e-7);
        assert!((b[0] - 87.0).abs() < 1e-7);
    }
    #[test]
    fn roundtrip() {
        let mut r = crate::rng::Rng::new(1);
        for _ in 0..20000 {
            let lat = r.f64() * 170.0 - 85.0;
            let lon = r.f64() * 360.0 - 180.0;
            let e = encode(lat, lon, 0);
            let o = encode(lat, lon, 1);
            let (g, rl) = global_decode([e.0, o.0], [e.1, o.1], 1);
            if let Global::Pos(la, lo) = g {
                let d = haversine_km(lat, lon, la, lo);
                assert!(d < 0.02, "{} {} -> {} {} ({} km) {:?}", lat, lon, la, lo, d, rl);
            }
        }
    }
}
