//! Per-monitor result accumulator -> JSON consumed by /verif/check.

use crate::json::J;
use crate::rng::fnv;
use std::collections::{BTreeMap, HashSet};

#[derive(Clone, Debug)]
pub struct Violation {
    /// stable category chosen by the monitor (e.g. "alt-q1", "panic", "foreign-row-changed")
    pub class: String,
    /// specific descriptor of the failing input / history (used for known-finding matching)
    pub key: String,
    pub detail: String,
    /// replay script (see replay.rs)
    pub replay: Vec<String>,
}

pub struct Report {
    pub property: String,
    pub monitor: String,
    pub evaluations: u64,
    distinct: HashSet<u64>,
    pub samples: Vec<J>,
    pub max_samples: usize,
    pub violations: Vec<Violation>,
    pub violation_counts: BTreeMap<String, u64>,
    pub known: BTreeMap<String, (u64, String)>,
    pub counters: BTreeMap<String, i64>,
    pub classes: BTreeMap<String, u64>,
    pub inconclusive: u64,
    pub inconclusive_notes: Vec<String>,
    pub panics: BTreeMap<String, u64>,
    pub exhaustive: Vec<String>,
    pub keep_per_class: usize,
}

impl Report {
    pub fn new(property: &str, monitor: &str) -> Report {
        Report {
            property: property.to_string(),
            monitor: monitor.to_string(),
            evaluations: 0,
            distinct: HashSet::new(),
            samples: Vec::new(),
            max_samples: 6,
            violations: Vec::new(),
            violation_counts: BTreeMap::new(),
            known: BTreeMap::new(),
            counters: BTreeMap::new(),
            classes: BTreeMap::new(),
            inconclusive: 0,
            inconclusive_notes: Vec::new(),
            panics: BTreeMap::new(),
            exhaustive: Vec::new(),
            keep_per_class: 4,
        }
    }
    /// one case judged by an oracle; `nontrivial_key` = Some(bytes identifying the case) when the
    /// case is non-trivial by the monitor's rule.
    pub fn eval(&mut self, nontrivial_key: Option<&[u8]>) {
        self.evaluations += 1;
        if let Some(k) = nontrivial_key {
            self.distinct.insert(fnv(k));
        }
    }
    pub fn eval_hash(&mut self, nontrivial: Option<u64>) {
        self.evaluations += 1;
        if let Some(h) = nontrivial {
            self.distinct.insert(h);
        }
    }
    pub fn count(&mut self, name: &str, n: i64) {
        *self.counters.entry(name.to_string()).or_insert(0) += n;
    }
    pub fn class(&mut self, name: &str) {
        *self.classes.entry(name.to_string()).or_insert(0) += 1;
    }
    pub fn sample(&mut self, j: J) {
        if self.samples.len() < self.max_samples {
            self.samples.push(j);
        }
    }
    pub fn want_sample(&self) -> bool {
        self.samples.len() < self.max_samples
    }
    pub fn violation(&mut self, class: &str, key: String, detail: String, replay: Vec<String>) {
        let c = self.violation_counts.entry(class.to_string()).or_insert(0);
        *c += 1;
        if (*c as usize) <= self.keep_per_class {
            self.violations.push(Violation { class: class.to_string(), key, detail, replay });
        }
    }
    pub fn known(&mut self, finding: &str, example: String) {
        let e = self.known.entry(finding.to_string()).or_insert((0, example));
        e.0 += 1;
    }
    pub fn inconclusive(&mut self, note: String) {
        self.inconclusive += 1;
        if self.inconclusive_notes.len() < 5 {
            self.inconclusive_notes.push(note);
        }
    }
    pub fn panic(&mut self, loc: &str) {
        *self.panics.entry(loc.to_string()).or_insert(0) += 1;
    }
    pub fn distinct_count(&self) -> usize {
        self.distinct.len()
    }
    pub fn to_json(&self) -> J {
        let mut o = J::obj();
        o.set("property", J::s(&self.property));
        o.set("monitor", J::s(&self.monitor));
        o.set("evaluations", J::i(self.evaluations));
        o.set("distinct_nontrivial", J::i(self.distinct.len() as u64));
        o.set("samples", J::Arr(self.samples.clone()));
        o.set("inconclusive", J::i(self.inconclusive));
        o.set("inconclusive_notes", J::arr_s(&self.inconclusive_notes));
        o.set("exhaustive", J::arr_s(&self.exhaustive));
        let mut c = J::obj();
        for (k, v) in &self.counters {
            c.set(k, J::Int(*v));
        }
        o.set("counters", c);
        let mut c = J::obj();
        for (k, v) in &self.classes {
            c.set(k, J::i(*v));
        }
        o.set("classes", c);
        let mut c = J::obj();
        for (k, v) in &self.panics {
            c.set(k, J::i(*v));
        }
        o.set("panics", c);
        let mut c = J::obj();
        for (k, v) in &self.violation_counts {
            c.set(k, J::i(*v));
        }
        o.set("violation_counts", c);
        let mut k = J::obj();
        for (id, (n, ex)) in &self.known {
            k.set(id, J::obj().with("count", J::i(*n)).with("example", J::s(ex)));
        }
        o.set("known", k);
        o.set(
            "violations",
            J::Arr(
                self.violations
                    .iter()
                    .map(|v| {
                        J::obj()
                            .with("class", J::s(&v.class))
                            .with("key", J::s(&v.key))
                            .with("detail", J::s(&v.detail))
                            .with("replay", J::arr_s(&v.replay))
                    })
                    .collect(),
            ),
        );
        o
    }
}
