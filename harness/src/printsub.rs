//! Print sub-process: the table renderer of the repository (`Planes::print`, `LegendHeaders`)
//! writes to stdout only, so it is observed by running this same binary as a child
//! (`sqmon print-table <spec>`) that builds a `Planes` from directly constructed rows and prints.

use crate::drive::Opts;
use squitterator::{DisplayFlags, LegendHeaders, Plane, Planes};
use std::process::{Command, Stdio};

#[derive(Clone, Debug, Default, PartialEq)]
pub struct PRow {
    pub icao: u32,
    pub reg: String,
    pub squawk: Option<u32>,
    pub threat: Option<char>,
    pub category: (u32, u32),
    pub ais: Option<String>,
    pub lat: f64,
    pub lon: f64,
    pub dist: Option<f64>,
    pub altitude: Option<u32>,
    pub altitude_source: char,
    pub altitude_gnss: Option<u32>,
    pub selected_altitude: Option<u32>,
    pub target_altitude_source: char,
    pub baro: Option<u32>,
    pub vrate: Option<i32>,
    pub vrate_source: char,
    pub track: Option<u32>,
    pub track_source: char,
    pub heading: Option<u32>,
    pub heading_source: char,
    pub grspeed: Option<u32>,
    pub tas: Option<u32>,
    pub ias: Option<u32>,
    pub mach: Option<f64>,
    pub roll: Option<i32>,
    pub tar: Option<i32>,
    pub temperature: Option<f64>,
    pub wind: Option<(u32, u32)>,
    pub humidity: Option<u32>,
    pub pressure: Option<u32>,
    pub turbulence: Option<u32>,
    pub last_df: u32,
    pub last_tc: u32,
    pub version: Option<u32>,
    pub ss: char,
    pub pos_age: Option<i64>,
    pub trk_age: Option<i64>,
    pub hdg_age: Option<i64>,
    pub age: i64,
}

fn o<T: ToString>(x: &Option<T>) -> String {
    match x {
        Some(v) => v.to_string(),
        None => "-".into(),
    }
}
fn p<T: std::str::FromStr>(s: &str) -> Option<T> {
    if s == "-" { None } else { s.parse().ok() }
}
fn ch(c: char) -> String {
    format!("{}", c as u32)
}
fn pch(s: &str) -> char {
    s.parse::<u32>().ok().and_then(char::from_u32).unwrap_or(' ')
}

impl PRow {
    pub fn to_line(&self) -> String {
        let f = vec![
            format!("{}", self.icao),
            self.reg.bytes().map(|b| format!("{:02x}", b)).collect::<String>() + "_",
            o(&self.squawk),
            o(&self.threat.map(|c| c as u32)),
            format!("{}", self.category.0),
            format!("{}", self.category.1),
            match &self.ais {
                Some(s) => s.bytes().map(|b| format!("{:02x}", b)).collect::<String>() + "_",
                None => "-".into(),
            },
            format!("{:?}", self.lat),
            format!("{:?}", self.lon),
            match self.dist {
                Some(d) => format!("{:?}", d),
                None => "-".into(),
            },
            o(&self.altitude),
            ch(self.altitude_source),
            o(&self.altitude_gnss),
            o(&self.selected_altitude),
            ch(self.target_altitude_source),
            o(&self.baro),
            o(&self.vrate),
            ch(self.vrate_source),
            o(&self.track),
            ch(self.track_source),
            o(&self.heading),
            ch(self.heading_source),
            o(&self.grspeed),
            o(&self.tas),
            o(&self.ias),
            match self.mach {
                Some(d) => format!("{:?}", d),
                None => "-".into(),
            },
            o(&self.roll),
            o(&self.tar),
            match self.temperature {
                Some(d) => format!("{:?}", d),
                None => "-".into(),
            },
            o(&self.wind.map(|w| w.0)),
            o(&self.wind.map(|w| w.1)),
            o(&self.humidity),
            o(&self.pressure),
            o(&self.turbulence),
            format!("{}", self.last_df),
            format!("{}", self.last_tc),
            o(&self.version),
            ch(self.ss),
            o(&self.pos_age),
            o(&self.trk_age),
            o(&self.hdg_age),
            format!("{}", self.age),
        ];
        f.join(" ")
    }
    pub fn from_line(l: &str) -> Option<PRow> {
        let f: Vec<&str> = l.split(' ').collect();
        if f.len() != 42 {
            return None;
        }
        let unhex = |s: &str| -> String {
            let s = s.trim_end_matches('_');
            (0..s.len() / 2).filter_map(|i| u8::from_str_radix(&s[2 * i..2 * i + 2], 16).ok()).map(|b| b as char).collect()
        };
        Some(PRow {
            icao: f[0].parse().ok()?,
            reg: unhex(f[1]),
            squawk: p(f[2]),
            threat: p::<u32>(f[3]).and_then(char::from_u32),
            category: (f[4].parse().ok()?, f[5].parse().ok()?),
            ais: if f[6] == "-" { None } else { Some(unhex(f[6])) },
            lat: f[7].parse().ok()?,
            lon: f[8].parse().ok()?,
            dist: p(f[9]),
            altitude: p(f[10]),
            altitude_source: pch(f[11]),
            altitude_gnss: p(f[12]),
            selected_altitude: p(f[13]),
            target_altitude_source: pch(f[14]),
            baro: p(f[15]),
            vrate: p(f[16]),
            vrate_source: pch(f[17]),
            track: p(f[18]),
            track_source: pch(f[19]),
            heading: p(f[20]),
            heading_source: pch(f[21]),
            grspeed: p(f[22]),
            tas: p(f[23]),
            ias: p(f[24]),
            mach: p(f[25]),
            roll: p(f[26]),
            tar: p(f[27]),
            temperature: p(f[28]),
            wind: match (p::<u32>(f[29]), p::<u32>(f[30])) {
                (Some(a), Some(b)) => Some((a, b)),
                _ => None,
            },
            humidity: p(f[31]),
            pressure: p(f[32]),
            turbulence: p(f[33]),
            last_df: f[34].parse().ok()?,
            last_tc: f[35].parse().ok()?,
            version: p(f[36]),
            ss: pch(f[37]),
            pos_age: p(f[38]),
            trk_age: p(f[39]),
            hdg_age: p(f[40]),
            age: f[41].parse().ok()?,
        })
    }
    pub fn to_plane(&self) -> Plane {
        let now = chrono::Utc::now();
        let ago = |s: i64| now - chrono::Duration::seconds(s) - chrono::Duration::milliseconds(300);
        let mut pl = Plane::new();
        pl.icao = self.icao;
        pl.reg = Box::leak(self.reg.clone().into_boxed_str());
        pl.squawk = self.squawk;
        pl.threat_encounter = self.threat;
        pl.category = self.category;
        pl.ais = self.ais.clone();
        pl.lat = self.lat;
        pl.lon = self.lon;
        pl.distance_from_observer = self.dist;
        pl.altitude = self.altitude;
        pl.altitude_source = self.altitude_source;
        pl.altitude_gnss = self.altitude_gnss;
        pl.selected_altitude = self.selected_altitude;
        pl.target_altitude_source = self.target_altitude_source;
        pl.barometric_pressure_setting = self.baro;
        pl.vrate = self.vrate;
        pl.vrate_source = self.vrate_source;
        pl.track = self.track;
        pl.track_source = self.track_source;
        pl.heading = self.heading;
        pl.heading_source = self.heading_source;
        pl.grspeed = self.grspeed;
        pl.true_airspeed = self.tas;
        pl.indicated_airspeed = self.ias;
        pl.mach_number = self.mach;
        pl.roll_angle = self.roll;
        pl.track_angle_rate = self.tar;
        pl.temperature = self.temperature;
        pl.wind = self.wind;
        pl.humidity = self.humidity;
        pl.pressure = self.pressure;
        pl.turbulence = self.turbulence;
        pl.last_df = self.last_df;
        pl.last_type_code = self.last_tc;
        pl.adsb_version = self.version;
        pl.surveillance_status = self.ss;
        pl.position_timestamp = self.pos_age.map(ago);
        pl.track_timestamp = self.trk_age.map(ago);
        pl.heading_timestamp = self.hdg_age.map(ago);
        pl.timestamp = ago(self.age);
        pl
    }
}

#[derive(Clone, Debug)]
pub struct TableSpec {
    pub display: Vec<String>,
    pub order: Vec<String>,
    pub rows: Vec<PRow>,
}

pub const MARK: &str = "=====SQMON-TABLE=====";

pub fn spec_text(tables: &[TableSpec]) -> String {
    let enc = |v: &Vec<String>| v.iter().map(|s| s.bytes().map(|b| format!("{:02x}", b)).collect::<String>() + "_").collect::<Vec<_>>().join(",");
    let mut s = String::new();
    for t in tables {
        s.push_str(&format!("table {} {}\n", enc(&t.display), enc(&t.order)));
        for r in &t.rows {
            s.push_str("row ");
            s.push_str(&r.to_line());
            s.push('\n');
        }
    }
    s
}

/// child side
pub fn child_main(spec_path: &str) {
    let text = std::fs::read_to_string(spec_path).expect("spec");
    let dec = |s: &str| -> Vec<String> {
        s.split(',')
            .map(|x| {
                let x = x.trim_end_matches('_');
                (0..x.len() / 2).filter_map(|i| u8::from_str_radix(&x[2 * i..2 * i + 2], 16).ok()).map(|b| b as char).collect()
            })
            .collect()
    };
    let mut cur: Option<(Vec<String>, Vec<String>, Vec<PRow>)> = None;
    let flush = |cur: &mut Option<(Vec<String>, Vec<String>, Vec<PRow>)>| {
        if let Some((display, order, rows)) = cur.take() {
            let opts = Opts { display: display.clone(), order, ..Default::default() };
            let args = opts.to_args("/dev/null");
            let flags = DisplayFlags::from_arg_str(&display.concat());
            let headers = LegendHeaders::from_display_flags(&flags);
            let planes = Planes::new();
            {
                let mut m = planes.aircrafts.write().unwrap();
                for r in &rows {
                    m.insert(r.icao, r.to_plane());
                }
            }
            println!("{}", MARK);
            headers.print_header();
            headers.print_separator();
            planes.print(&args, &flags);
            headers.print_separator();
        }
    };
    for l in text.lines() {
        if let Some(rest) = l.strip_prefix("table ") {
            flush(&mut cur);
            let mut it = rest.split(' ');
            let d = dec(it.next().unwrap_or(""));
            let o = dec(it.next().unwrap_or(""));
            cur = Some((d, o, Vec::new()));
        } else if let Some(rest) = l.strip_prefix("row ") {
            if let (Some(c), Some(r)) = (cur.as_mut(), PRow::from_line(rest)) {
                c.2.push(r);
            } else {
                eprintln!("bad row line");
                std::process::exit(3);
            }
        }
    }
    flush(&mut cur);
}

/// parent side: returns the printed text of each table (header, separator, rows, separator)
pub fn render(tables: &[TableSpec]) -> Result<Vec<String>, String> {
    static SEQ: std::sync::atomic::AtomicU64 = std::sync::atomic::AtomicU64::new(0);
    let dir = std::env::var("SQMON_SCRATCH").unwrap_or_else(|_| "/dev/shm".to_string());
    let path = format!("{}/sqmon-spec-{}-{}.txt", dir, std::process::id(), SEQ.fetch_add(1, std::sync::atomic::Ordering::Relaxed));
    std::fs::write(&path, spec_text(tables)).map_err(|e| e.to_string())?;
    let exe = std::env::current_exe().map_err(|e| e.to_string())?;
    let out = Command::new(exe).arg("print-table").arg(&path).stdin(Stdio::null()).stderr(Stdio::piped()).output().map_err(|e| e.to_string());
    let _ = std::fs::remove_file(&path);
    let out = out?;
    if !out.status.success() {
        return Err(format!("print child failed: {:?} {}", out.status, String::from_utf8_lossy(&out.stderr)));
    }
    let text = String::from_utf8_lossy(&out.stdout).to_string();
    let parts: Vec<String> = text.split(&format!("{}\n", MARK)).skip(1).map(|s| s.to_string()).collect();
    if parts.len() != tables.len() {
        return Err(format!("expected {} tables, child printed {}", tables.len(), parts.len()));
    }
    Ok(parts)
}
