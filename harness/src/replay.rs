//! Replay scripts: a tiny line-oriented language every monitor can emit, so that one
//! recorded violating case can be re-executed deterministically against the real code.
//!
//!   opts U=0 R=0 d=1000000000 f=- O=-          options of all following segments
//!   seg <line>|<line>|...                      one reader run on the shared table
//!   shift <seconds> [ICAO]                     move time stamps back (simulated silence)
//!   expect <ICAO> <field> <v1>||<v2>...        field (Row::fields name) must render as one of
//!   expect-absent <ICAO> / expect-present <ICAO>
//!   expect-nopanic                             the preceding segment must not have panicked
//!   show <ICAO>                                print the row
//!   note <free text>

use crate::drive::{Opts, Table};
use squitterator::set_observer_coords_from_str;

pub fn esc_line(bytes: &[u8]) -> String {
    let mut s = String::new();
    for &b in bytes {
        if (0x20..0x7f).contains(&b) && b != b'|' && b != b'\\' {
            s.push(b as char);
        } else {
            s.push_str(&format!("\\x{:02X}", b));
        }
    }
    s
}

pub fn unesc_line(s: &str) -> Vec<u8> {
    let b = s.as_bytes();
    let mut out = Vec::new();
    let mut i = 0;
    while i < b.len() {
        if b[i] == b'\\' && i + 3 < b.len() && b[i + 1] == b'x' {
            if let Ok(v) = u8::from_str_radix(&s[i + 2..i + 4], 16) {
                out.push(v);
                i += 4;
                continue;
            }
        }
        out.push(b[i]);
        i += 1;
    }
    out
}

pub fn opts_line(o: &Opts, observer: Option<&str>) -> String {
    let hx = |v: &Vec<String>| v.iter().map(|s| format!("{}_", s.bytes().map(|b| format!("{:02x}", b)).collect::<String>())).collect::<Vec<_>>().join(",");
    format!(
        "opts U={} R={} d={} f={} O={} u={} c={} i={} o={}",
        o.u as u8,
        o.r as u8,
        o.delete_after,
        match &o.filter {
            Some(f) if !f.is_empty() => f.iter().map(|x| x.to_string()).collect::<Vec<_>>().join(","),
            Some(_) => "none".into(),
            None => "-".into(),
        },
        observer.map(|s| s.replace(' ', "_")).unwrap_or("-".into()),
        o.update,
        o.count as u8,
        hx(&o.display),
        hx(&o.order),
    )
}

pub fn seg_line<S: AsRef<str>>(lines: &[S]) -> String {
    format!("seg {}", lines.iter().map(|l| esc_line(l.as_ref().as_bytes())).collect::<Vec<_>>().join("|"))
}
pub fn seg_line_bytes(lines: &[Vec<u8>]) -> String {
    format!("seg {}", lines.iter().map(|l| esc_line(l)).collect::<Vec<_>>().join("|"))
}

/// returns (all expectations held, transcript)
pub fn run_script(script: &str) -> (bool, String) {
    let mut t = Table::new();
    let mut o = Opts::default();
    let mut ok = true;
    let mut log = String::new();
    let mut last_panic: Option<String> = None;
    for raw in script.lines() {
        let line = raw.trim_end();
        if line.is_empty() || line.starts_with('#') {
            continue;
        }
        let (cmd, rest) = line.split_once(' ').unwrap_or((line, ""));
        match cmd {
            "property" | "class" | "detail" | "note" | "key" => {
                log.push_str(&format!("{}\n", line));
            }
            "opts" => {
                for kv in rest.split_whitespace() {
                    if let Some((k, v)) = kv.split_once('=') {
                        match k {
                            "U" => o.u = v == "1",
                            "R" => o.r = v == "1",
                            "d" => o.delete_after = v.parse().unwrap_or(o.delete_after),
                            "f" => {
                                o.filter = if v == "-" {
                                    None
                                } else if v == "none" {
                                    Some(vec![])
                                } else {
                                    Some(v.split(',').filter_map(|x| x.parse().ok()).collect())
                                }
                            }
                            "u" => o.update = v.parse().unwrap_or(o.update),
                            "c" => o.count = v == "1",
                            "i" | "o" => {
                                let list: Vec<String> = v
                                    .split(',')
                                    .map(|x| {
                                        let x = x.trim_end_matches('_');
                                        (0..x.len() / 2).filter_map(|i| u8::from_str_radix(&x[2 * i..2 * i + 2], 16).ok()).map(|b| b as char).collect()
                                    })
                                    .collect();
                                if k == "i" { o.display = list } else { o.order = list }
                            }
                            "O" => {
                                if v != "-" {
                                    set_observer_coords_from_str(&v.replace('_', " "));
                                }
                            }
                            _ => {}
                        }
                    }
                }
                log.push_str(&format!("{}\n", line));
            }
            "seg" => {
                let mut buf = Vec::new();
                let mut n = 0;
                for l in rest.split('|') {
                    buf.extend(unesc_line(l));
                    buf.push(b'\n');
                    n += 1;
                }
                if t.is_poisoned() {
                    log.push_str("  (table lock poisoned by an earlier panic)\n");
                }
                match t.run_bytes(&o, &buf) {
                    Ok(()) => {
                        last_panic = None;
                        log.push_str(&format!("seg: {} lines ok, table has {} rows\n", n, t.len()));
                    }
                    Err(e) => {
                        last_panic = Some(format!("{:?}", e));
                        log.push_str(&format!("seg: {} lines -> {:?}\n", n, e));
                    }
                }
            }
            "shift" => {
                let mut it = rest.split_whitespace();
                let secs: f64 = it.next().and_then(|x| x.parse().ok()).unwrap_or(0.0);
                let only = it.next().and_then(|x| u32::from_str_radix(x, 16).ok());
                t.shift_back(secs, only);
                log.push_str(&format!("{}\n", line));
            }
            "show" => {
                let a = u32::from_str_radix(rest.trim(), 16).unwrap_or(0);
                match t.get(a) {
                    Some(r) => {
                        log.push_str(&format!("row {:06X}:\n", a));
                        for (k, v) in r.fields() {
                            log.push_str(&format!("    {} = {}\n", k, v));
                        }
                    }
                    None => log.push_str(&format!("row {:06X}: absent\n", a)),
                }
            }
            "expect-absent" | "expect-present" => {
                let a = u32::from_str_radix(rest.trim(), 16).unwrap_or(0);
                let present = t.get(a).is_some();
                let good = present == (cmd == "expect-present");
                ok &= good;
                log.push_str(&format!("{} -> {}\n", line, if good { "holds" } else { "FAILS" }));
            }
            "expect-near" => {
                // expect-near ICAO lat lon km : shown position within km of (lat, lon)
                let v: Vec<&str> = rest.split_whitespace().collect();
                let a = u32::from_str_radix(v.first().copied().unwrap_or(""), 16).unwrap_or(0);
                let (la, lo, km): (f64, f64, f64) = (
                    v.get(1).and_then(|x| x.parse().ok()).unwrap_or(0.0),
                    v.get(2).and_then(|x| x.parse().ok()).unwrap_or(0.0),
                    v.get(3).and_then(|x| x.parse().ok()).unwrap_or(0.02),
                );
                match t.get(a) {
                    None => {
                        ok = false;
                        log.push_str(&format!("{} -> FAILS (row absent)\n", line));
                    }
                    Some(r) => {
                        let d = crate::refmodel::cpr::haversine_km(la, lo, r.latf(), r.lonf());
                        let good = d < km;
                        ok &= good;
                        log.push_str(&format!(
                            "{} -> {} (shown {:.6},{:.6} = {:.4} km away; distance column {:?})\n",
                            line,
                            if good { "holds" } else { "FAILS" },
                            r.latf(),
                            r.lonf(),
                            d,
                            r.distf()
                        ));
                    }
                }
            }
            "expect-nopanic" => {
                let good = last_panic.is_none();
                ok &= good;
                log.push_str(&format!(
                    "{} -> {}\n",
                    line,
                    if good { "holds".to_string() } else { format!("FAILS ({})", last_panic.clone().unwrap()) }
                ));
            }
            "expect" => {
                let mut it = rest.splitn(3, ' ');
                let a = u32::from_str_radix(it.next().unwrap_or(""), 16).unwrap_or(0);
                let field = it.next().unwrap_or("");
                let alts: Vec<&str> = it.next().unwrap_or("").split("||").collect();
                match t.get(a) {
                    None => {
                        ok = false;
                        log.push_str(&format!("{} -> FAILS (row absent)\n", line));
                    }
                    Some(r) => {
                        let got = r.fields().into_iter().find(|(k, _)| *k == field).map(|(_, v)| v);
                        match got {
                            Some(v) if alts.iter().any(|x| *x == v) => {
                                log.push_str(&format!("{} -> holds (observed {})\n", line, v))
                            }
                            Some(v) => {
                                ok = false;
                                log.push_str(&format!("{} -> FAILS (observed {})\n", line, v));
                            }
                            None => {
                                ok = false;
                                log.push_str(&format!("{} -> FAILS (no such field)\n", line));
                            }
                        }
                    }
                }
            }
            _ => log.push_str(&format!("?? {}\n", line)),
        }
    }
    (ok, log)
}
