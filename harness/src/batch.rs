//! "Batch by address": many independent cases, each on its own 24-bit address, run
//! through one reader segment for the prefixes and one for the frames under test.

use crate::drive::{Opts, Row, RunErr, Table};
use squitterator::Plane;

#[derive(Clone, Debug)]
pub struct Case {
    pub addr: u32,
    /// lines fed first (row creation / state set-up); may be empty (frame under test creates the row)
    pub prefix: Vec<String>,
    /// lines under test (usually one)
    pub test: Vec<String>,
}

#[derive(Clone, Debug, Default)]
pub struct CaseOut {
    pub before: Option<Row>,
    pub after: Option<Row>,
    pub panic: Option<String>,
}

pub const MAX_BATCH: usize = 4096;

/// Runs `cases` (distinct addresses!) and returns per-case observations.
/// `preset` may edit the row after the prefix segment (e.g. plant a previous value).
pub fn run_batch(
    opts: &Opts,
    cases: &[Case],
    preset: Option<&dyn Fn(usize, &mut Plane)>,
    stats: &mut (u64, u64),
) -> Vec<CaseOut> {
    let mut out = vec![CaseOut::default(); cases.len()];
    for chunk_start in (0..cases.len()).step_by(MAX_BATCH) {
        let end = (chunk_start + MAX_BATCH).min(cases.len());
        run_rec(opts, cases, chunk_start, end, preset, &mut out, stats);
    }
    out
}

fn run_rec(
    opts: &Opts,
    cases: &[Case],
    lo: usize,
    hi: usize,
    preset: Option<&dyn Fn(usize, &mut Plane)>,
    out: &mut [CaseOut],
    stats: &mut (u64, u64),
) {
    if lo >= hi {
        return;
    }
    let mut t = Table::new();
    let mut failed: Option<String> = None;
    let pre: Vec<&String> = cases[lo..hi].iter().flat_map(|c| c.prefix.iter()).collect();
    if !pre.is_empty() {
        stats.0 += 1;
        stats.1 += pre.len() as u64;
        if let Err(e) = t.run(opts, &pre) {
            failed = Some(err_str(&e));
        }
    }
    if failed.is_none() {
        if let Some(p) = preset {
            for i in lo..hi {
                t.edit(cases[i].addr, |pl| p(i, pl));
            }
        }
        let before: Vec<Option<Row>> = cases[lo..hi].iter().map(|c| t.get(c.addr)).collect();
        let test: Vec<&String> = cases[lo..hi].iter().flat_map(|c| c.test.iter()).collect();
        stats.0 += 1;
        stats.1 += test.len() as u64;
        match t.run(opts, &test) {
            Ok(()) => {
                for (k, i) in (lo..hi).enumerate() {
                    out[i].before = before[k].clone();
                    out[i].after = t.get(cases[i].addr);
                    out[i].panic = None;
                }
                return;
            }
            Err(e) => failed = Some(err_str(&e)),
        }
    }
    // a panic (or I/O error) somewhere in this range: bisect on fresh tables
    if hi - lo == 1 {
        out[lo].panic = failed;
        out[lo].before = None;
        out[lo].after = None;
        return;
    }
    let mid = (lo + hi) / 2;
    run_rec(opts, cases, lo, mid, preset, out, stats);
    run_rec(opts, cases, mid, hi, preset, out, stats);
}

pub fn err_str(e: &RunErr) -> String {
    match e {
        RunErr::Panic(s) => format!("panic: {}", s),
        RunErr::Io(s) => format!("io: {}", s),
    }
}

/// source location part of a captured panic string ("msg @ file:line")
pub fn panic_loc(s: &str) -> String {
    match s.rfind(" @ ") {
        Some(i) => s[i + 3..].split(" | ").next().unwrap_or("").to_string(),
        None => "?".to_string(),
    }
}
