//! sqmon – runtime monitors for squitterator. See /verif/DESIGN.md.
//!
//!   sqmon run <monitor> --tier quick|thorough --seed N --shard i/n --out file.json
//!             [--cli path] [--cli-release path] [--known-dir dir]
//!   sqmon replay <file>
//!   sqmon list

mod batch;
mod drive;
mod fgen;
mod json;
mod lockstep;
mod monitors;
mod printsub;
mod refmodel;
mod replay;
mod report;
mod rng;

use json::J;
use std::time::Instant;

#[derive(Clone, Copy, PartialEq, Eq, Debug)]
pub enum Tier {
    Quick,
    Thorough,
}

#[derive(Clone, Debug)]
pub struct Ctx {
    pub tier: Tier,
    pub seed: u64,
    pub shard: usize,
    pub nshards: usize,
    pub cli: Option<String>,
    pub cli_release: Option<String>,
    pub known_dir: String,
    pub repo: String,
    pub scale: f64,
}

impl Ctx {
    pub fn mine(&self, i: u64) -> bool {
        (i % self.nshards as u64) as usize == self.shard
    }
    pub fn quick(&self) -> bool {
        self.tier == Tier::Quick
    }
    /// n scaled by --scale (used by sanitizer runs to shrink workloads), at least 1
    pub fn n(&self, quick: u64, thorough: u64) -> u64 {
        let base = if self.quick() { quick } else { thorough };
        ((base as f64 * self.scale) as u64).max(1)
    }
    /// this shard's share of n items
    pub fn share(&self, n: u64) -> u64 {
        let base = n / self.nshards as u64;
        let extra = if (self.shard as u64) < n % self.nshards as u64 { 1 } else { 0 };
        base + extra
    }
    pub fn rng(&self, label: &str) -> rng::Rng {
        rng::Rng::derive(self.seed, label, self.shard as u64)
    }
}

fn main() {
    let args: Vec<String> = std::env::args().collect();
    if args.len() < 2 {
        eprintln!("usage: sqmon run|replay|list ...");
        std::process::exit(2);
    }
    drive::install_panic_hook();
    refmodel::country::check_table();
    match args[1].as_str() {
        "list" => {
            for (name, _) in monitors::registry() {
                println!("{}", name);
            }
        }
        "print-table" => {
            printsub::child_main(&args[2]);
        }
        "gillham-table" => {
            print!("{}", monitors::c05::dump_gillham_table());
        }
        "replay" => {
            let script = std::fs::read_to_string(&args[2]).unwrap_or_else(|e| {
                eprintln!("cannot read {}: {}", args[2], e);
                std::process::exit(2)
            });
            if script.lines().any(|l| l.starts_with("c18 ")) {
                let (ok, log) = monitors::c18::replay(&script);
                print!("{}", log);
                println!("{}", if ok { "REPLAY: all expectations hold" } else { "REPLAY: violation reproduced" });
                std::process::exit(if ok { 0 } else { 1 });
            }
            if script.lines().any(|l| l.starts_with("cli ")) {
                let (ok, log) = monitors::cli::replay_cli(&script);
                print!("{}", log);
                println!("{}", if ok { "REPLAY: all expectations hold" } else { "REPLAY: violation reproduced" });
                std::process::exit(if ok { 0 } else { 1 });
            }
            let (ok, log) = replay::run_script(&script);
            print!("{}", log);
            println!("{}", if ok { "REPLAY: all expectations hold" } else { "REPLAY: violation reproduced" });
            std::process::exit(if ok { 0 } else { 1 });
        }
        "run" => {
            let name = args.get(2).cloned().unwrap_or_default();
            let mut ctx = Ctx {
                tier: Tier::Quick,
                seed: 1,
                shard: 0,
                nshards: 1,
                cli: None,
                cli_release: None,
                known_dir: "/verif/known".into(),
                repo: "/repo".into(),
                scale: 1.0,
            };
            let mut out = None;
            let mut i = 3;
            while i < args.len() {
                let v = args.get(i + 1).cloned().unwrap_or_default();
                match args[i].as_str() {
                    "--tier" => ctx.tier = if v == "thorough" { Tier::Thorough } else { Tier::Quick },
                    "--seed" => ctx.seed = v.parse().unwrap_or(1),
                    "--shard" => {
                        let (a, b) = v.split_once('/').unwrap_or(("0", "1"));
                        ctx.shard = a.parse().unwrap_or(0);
                        ctx.nshards = b.parse().unwrap_or(1).max(1);
                    }
                    "--out" => out = Some(v),
                    "--cli" => ctx.cli = Some(v),
                    "--cli-release" => ctx.cli_release = Some(v),
                    "--known-dir" => ctx.known_dir = v,
                    "--repo" => ctx.repo = v,
                    "--scale" => ctx.scale = v.parse().unwrap_or(1.0),
                    other => {
                        eprintln!("unknown option {}", other);
                        std::process::exit(2);
                    }
                }
                i += 2;
            }
            let Some((_, f)) = monitors::registry().into_iter().find(|(n, _)| *n == name) else {
                eprintln!("unknown monitor {}", name);
                std::process::exit(2);
            };
            let t0 = Instant::now();
            let reports = f(&ctx);
            let wall = t0.elapsed().as_secs_f64();
            let j = J::obj()
                .with("monitor", J::s(&name))
                .with("shard", J::i(ctx.shard as u64))
                .with("nshards", J::i(ctx.nshards as u64))
                .with("seed", J::i(ctx.seed))
                .with("wall_s", J::Num(wall))
                .with("reports", J::Arr(reports.iter().map(|r| r.to_json()).collect()));
            match out {
                Some(p) => std::fs::write(&p, j.dump()).expect("write out"),
                None => println!("{}", j.dump()),
            }
            let nv: u64 = reports.iter().map(|r| r.violation_counts.values().sum::<u64>()).sum();
            eprintln!(
                "[sqmon {} shard {}/{}] {} reports, {} evaluations, {} violations, {:.1}s",
                name,
                ctx.shard,
                ctx.nshards,
                reports.len(),
                reports.iter().map(|r| r.evaluations).sum::<u64>(),
                nv,
                wall
            );
        }
        _ => {
            eprintln!("usage: sqmon run|replay|list ...");
            std::process::exit(2);
        }
    }
}
