//! Lock-step histories: segment k holds the k-th step of every history in the batch, so
//! one reader run advances all histories at once (and interleaves many aircraft). Rows are
//! snapshotted before and after every step; time passes by shifting a history's own rows.

use crate::batch::err_str;
use crate::drive::{Opts, Row, Table};

#[derive(Clone, Debug, Default)]
pub struct Step {
    /// seconds of silence simulated before the lines of this step (stamps of the history's rows move back)
    pub shift: f64,
    pub lines: Vec<String>,
}

#[derive(Clone, Debug)]
pub struct History {
    /// aircraft of this history (distinct across the whole batch)
    pub addrs: Vec<u32>,
    pub steps: Vec<Step>,
}

#[derive(Clone, Debug)]
pub struct Obs {
    /// rows (one per address of the history) after the shift, before the step's lines
    pub before: Vec<Option<Row>>,
    pub after: Vec<Option<Row>>,
}

#[derive(Clone, Debug)]
pub struct HistOut {
    pub obs: Vec<Obs>,
    /// Some((step index, message)) if the reader panicked on this history's step
    pub panic: Option<(usize, String)>,
}

#[derive(Clone, Copy, Debug, Default)]
pub struct LsStats {
    pub segments: u64,
    pub lines: u64,
    /// longest wall time from the start of one segment to the end of the next (seconds):
    /// upper bound of the real time that passed between two consecutive steps of a history
    pub max_pair_wall: f64,
}

pub fn run_lockstep(opts: &Opts, hs: &[History], stats: &mut LsStats) -> Vec<HistOut> {
    let mut out: Vec<HistOut> = hs.iter().map(|_| HistOut { obs: Vec::new(), panic: None }).collect();
    let idx: Vec<usize> = (0..hs.len()).collect();
    rec(opts, hs, &idx, &mut out, stats);
    out
}

fn rec(opts: &Opts, hs: &[History], idx: &[usize], out: &mut [HistOut], stats: &mut LsStats) {
    if idx.is_empty() {
        return;
    }
    let mut t = Table::new();
    let maxlen = idx.iter().map(|&i| hs[i].steps.len()).max().unwrap_or(0);
    let mut obs: Vec<Vec<Obs>> = idx.iter().map(|_| Vec::new()).collect();
    let mut prev_start: Option<std::time::Instant> = None;
    for k in 0..maxlen {
        let seg_start = std::time::Instant::now();
        let mut lines: Vec<&String> = Vec::new();
        for &i in idx {
            if let Some(st) = hs[i].steps.get(k) {
                if st.shift != 0.0 {
                    for a in &hs[i].addrs {
                        t.shift_back(st.shift, Some(*a));
                    }
                }
                lines.extend(st.lines.iter());
            }
        }
        let before: Vec<Vec<Option<Row>>> = idx
            .iter()
            .map(|&i| if k < hs[i].steps.len() { hs[i].addrs.iter().map(|a| t.get(*a)).collect() } else { Vec::new() })
            .collect();
        stats.segments += 1;
        stats.lines += lines.len() as u64;
        let res = t.run(opts, &lines);
        if let Some(ps) = prev_start {
            let w = ps.elapsed().as_secs_f64();
            if w > stats.max_pair_wall {
                stats.max_pair_wall = w;
            }
        }
        prev_start = Some(seg_start);
        match res {
            Ok(()) => {
                for (n, &i) in idx.iter().enumerate() {
                    if k < hs[i].steps.len() {
                        let after = hs[i].addrs.iter().map(|a| t.get(*a)).collect();
                        obs[n].push(Obs { before: before[n].clone(), after });
                    }
                }
            }
            Err(e) => {
                if idx.len() == 1 {
                    let i = idx[0];
                    out[i].obs = std::mem::take(&mut obs[0]);
                    out[i].panic = Some((k, err_str(&e)));
                    return;
                }
                let mid = idx.len() / 2;
                rec(opts, hs, &idx[..mid], out, stats);
                rec(opts, hs, &idx[mid..], out, stats);
                return;
            }
        }
    }
    for (n, &i) in idx.iter().enumerate() {
        out[i].obs = std::mem::take(&mut obs[n]);
        out[i].panic = None;
    }
}

/// replay script of one history (prefix up to and including step `upto`)
pub fn history_script(opts: &Opts, observer: Option<&str>, h: &History, upto: usize) -> Vec<String> {
    let mut v = vec![crate::replay::opts_line(opts, observer)];
    for st in h.steps.iter().take(upto + 1) {
        if st.shift != 0.0 {
            for a in &h.addrs {
                v.push(format!("shift {} {:06X}", st.shift, a));
            }
        }
        v.push(crate::replay::seg_line(&st.lines));
    }
    v
}
