#!/usr/bin/env python3
"""Regenerates MANIFEST.json from the table below (run by hand after changing a claim)."""
import json, os
V = os.path.dirname(os.path.abspath(__file__))
T = {
 "C01": ("hostile-workload runtime monitoring: panic hook + join() result in-process (overflow checks on), exit status/signal/stderr of debug and release CLI, canary rows; quick adds valgrind memcheck runs of the release CLI, thorough adds AddressSanitizer(+LeakSanitizer) and ThreadSanitizer builds of harness+library repeating the hostile workload", "3 C01, 4"),
 "C02": ("runtime monitor: one-line reader runs on a preloaded table judged by a reference accept rule (digit count x DF x prefix grid, decoration differential)", "3 C02"),
 "C03": ("runtime monitor: reference CRC-24/AA address oracle on the table key set after each frame; all other rows bit-identical", "3 C03"),
 "C04": ("runtime monitor: differential subsequence (stream with vs without parity-damaged squitters: 1-/2-bit, bursts, random, structured non-code-words) with reference syndrome oracle", "3 C04"),
 "C05": ("runtime monitor: exhaustive AC13/AC12 code sweep through the whole pipeline vs reference altitude decoder, four update contexts", "3 C05"),
 "C06": ("runtime monitor: exhaustive ID13 sweep through the pipeline vs reference squawk decoder; other formats must keep squawk", "3 C06"),
 "C07": ("runtime monitor: 6-bit character sweep + TC x CA grid vs reference codec, Comm-B gating states, CLI W column", "3 C07"),
 "C08": ("runtime monitor: lock-step CPR histories with simulated elapsed time vs reference CPR encoder (truth known), unchanged-otherwise oracle", "3 C08"),
 "C09": ("runtime monitor: TC19 field grid through the pipeline vs statement formulas, four update contexts", "3 C09"),
 "C10": ("runtime monitor: lock-step Comm-B gating histories vs reference Doc 9871 encoders/decoders with weak/strong preconditions", "3 C10"),
 "C11": ("runtime monitor: lock-step histories checked after every prefix against a reference fold (Set/SetOrKeep/Keep/Any), cross-talk and idempotence", "3 C11"),
 "C12": ("runtime monitor: schedules with shifted time stamps vs last-heard model; sweep bound; CLI LC column", "3 C12"),
 "C13": ("runtime monitor: differential subsequence with junk lines (file in-process; expired preloaded rows so that every sweep position matters; TCP source through the CLI against a loopback server)", "3 C13"),
 "C14": ("runtime monitor: output of Planes::print / CLI refresh blocks parsed and compared with a reference renderer; marker non-interference between columns", "3 C14"),
 "C15": ("runtime monitor: printed ICAO column is a permutation, key of last recognised -o letter monotone", "3 C15"),
 "C16": ("runtime monitor: differential filtered stream vs pre-filtered stream; CLI counter line vs reference counts", "3 C16"),
 "C17": ("runtime monitor: exhaustive 2^24 address sweep through both constructors vs reference allocation table", "3 C17"),
 "C18": ("runtime monitor: CLI under strace against a scripted loopback fault server; event-log oracle (alive, paced retries, reconnect bound, table kept)", "3 C18"),
 "C19": ("runtime monitor: differential tables across option pairs; lock-step -U vs default histories", "3 C19"),
}
NOTE = ("held on the executions observed, not a proof; trusted base: the reference model in harness/src/refmodel (written from the Mode S / ADS-B "
        "standards and the property statement, self-tested against published vectors), observation of the public fields of Plane after the reader thread "
        "is joined, simulated time by shifting the public stamp fields")
na = json.load(open(os.path.join(V, "not_applicable.json"))) if os.path.exists(os.path.join(V, "not_applicable.json")) else []
na_ids = {x["property_id"] for x in na}
titles = {}
for l in open(os.path.join(V, "properties.jsonl")):
    d = json.loads(l); titles[d["id"]] = d["title"]
checks = []
for pid, (tech, ref) in T.items():
    if pid in na_ids:
        continue
    checks.append({
        "property_id": pid,
        "quick_cmd": f"./check {pid} --tier quick",
        "thorough_cmd": f"./check {pid} --tier thorough",
        "evidence_file": f"/verif/evidence/{pid}.json",
        "replay_cmd_template": f"./check {pid} --replay {{path}}",
        "engine": "sqmon",
        "level_claimed": {"category": "exploration",
                          "text": f"'{titles[pid]}' held on every execution the monitor observed (counts, classes and samples in the evidence file); exploration is the honest level for runtime monitoring: finite sub-spaces are enumerated completely, the rest is stratified sampling",
                          "design_ref": "DESIGN.md section " + ref},
        "level_note": NOTE,
        "technique": tech,
    })
m = {
 "version": 1,
 "setup_cmd": "./check --setup",
 "hooks": {"guard": "squitterator_verif", "enable": "none needed: all observation uses the public API of the unmodified crate (DESIGN.md 1.2)",
           "baseline_off_cmd": "cd /repo && cargo test --workspace --no-fail-fast --offline", "source_commits": [], "add_only": True},
 "engines": [{"name": "sqmon", "path": "/verif/harness", "serves_properties": sorted(c["property_id"] for c in checks),
              "kind_free_text": "Rust harness linking the real crate (path dependency on /repo), reference model, workload generators and monitors; driven and aggregated by /verif/check (Python); CLI-level monitors run the built binary as a sub-process"}],
 "checks": checks,
 "notes": "All checks rebuild harness and CLI from /repo's working tree (VERIF_REPO overrides for validating against mutated copies). Exit 2 + INCONCLUSIVE line = harness could not decide (never a VIOLATION). known_findings.json lists genuine defects (2 known, 12 fixed); seeded/ holds 37 confirmed property-breaking changes used to validate the monitors (seeded/REGRESSION.txt).",
 "not_applicable": na,
}
json.dump(m, open(os.path.join(V, "MANIFEST.json"), "w"), indent=1)
print(len(checks), "checks;", len(na), "not applicable")
