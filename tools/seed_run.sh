#!/bin/bash
# usage: seed_run.sh <worktree-ID> <tier> <check ids...>   runs checks against /tmp/mut/<ID> via VERIF_REPO
ID=$1; TIER=$2; shift 2
for c in "$@"; do
  out=$(cd /verif && VERIF_REPO=/tmp/mut/$ID ./check $c --tier $TIER 2>/tmp/mut/$ID.$c.$TIER.err | grep -E "^(OK|VIOLATION|KNOWN|INCONCL)" | head -3 | cut -c1-200 | tr '\n' ';')
  echo "$ID $c $TIER: $out"
done
