#!/bin/bash
# Re-validates every kept seeded change against the current checks: for each /verif/seeded/<id> a scratch worktree of
# /repo gets patch.diff applied and the property's quick check is run with VERIF_REPO pointing at it.
# usage: tools/seed_regress.sh [tier] [ids...]    output: one line per seed; results in /verif/seeded/REGRESSION.txt
TIER=${1:-quick}; shift
IDS=${@:-$(ls /verif/seeded | grep -v REGRESSION)}
W=/tmp/seedrun; mkdir -p $W
run_one() {
  id=$1; prop=$(python3 -c "import json;print(json.load(open('/verif/seeded/$id/meta.json'))['property'])")
  d=$W/$id; git -C /repo worktree add -q --detach $d HEAD 2>/dev/null || return
  git -C $d apply /verif/seeded/$id/patch.diff || { echo "$id $prop: patch does not apply"; git -C /repo worktree remove --force $d; return; }
  out=$(cd /verif && VERIF_REPO=$d ./check $prop --tier $TIER 2>/dev/null | grep -E "^(OK|VIOLATION|INCONCL)" | head -1 | cut -c1-160)
  case "$out" in VIOLATION*) v=DETECTED;; OK*) v=missed;; *) v=inconclusive;; esac
  echo "$id $prop $TIER: $v  ($out)"
  t=$(python3 -c "import hashlib;print(hashlib.sha1(b'$d').hexdigest()[:10])")
  rm -rf /verif/.cache/*-$t
  git -C /repo worktree remove --force $d
}
export -f run_one; export W TIER
printf "%s\n" $IDS | xargs -P 4 -I{} bash -c 'run_one {}' | sort | tee /verif/seeded/REGRESSION.txt
git -C /repo worktree prune
