#!/bin/bash
# usage: seed_confirm.sh <ID> [name]   confirms a sub-agent's mutation in /tmp/mut/<ID> and stores it in /verif/seeded/<name>
# (tests pass with change, demo fails with change, demo passes without); then runs the given checks against it
ID=$1; NAME=${2:-$ID}; W=/tmp/mut/$ID; S=/verif/seeded/$NAME
mkdir -p $S
cd $W || exit 2
git diff -- src > $S/patch.diff
[ -s $S/patch.diff ] || { echo "no diff"; exit 2; }
for f in tests/demo_$ID.rs demo_$ID.sh demo_$ID.py MUTATION.md; do [ -f $f ] && cp $f $S/; done
export CARGO_NET_OFFLINE=true
{
echo "== unit tests with change"; cargo test --offline --lib 2>&1 | grep -E "^test result|FAILED|failed" | head -5
if [ -f tests/demo_$ID.rs ]; then
  echo "== demo with change (must fail)"; cargo test --offline --test demo_$ID 2>&1 | grep -E "^test result|^test .*(ok|FAILED)" | head -12
  git apply -R $S/patch.diff
  echo "== demo without change (must pass)"; cargo test --offline --test demo_$ID 2>&1 | grep -E "^test result|^test .*(ok|FAILED)" | head -12
  git apply $S/patch.diff
else
  D=$(ls demo_$ID.* | head -1)
  echo "== demo with change (must fail): $D"; cargo build --offline -q 2>/dev/null; (case $D in *.py) timeout 300 python3 $D;; *) timeout 300 bash $D;; esac) > demo_with.log 2>&1; echo "exit $?"; tail -3 demo_with.log
  git apply -R $S/patch.diff
  echo "== demo without change (must pass)"; cargo build --offline -q 2>/dev/null; (case $D in *.py) timeout 300 python3 $D;; *) timeout 300 bash $D;; esac) > demo_without.log 2>&1; echo "exit $?"; tail -3 demo_without.log
  git apply $S/patch.diff
fi
} > $S/confirm.log 2>&1
rm -rf $W/target
cat $S/confirm.log
